#!/bin/sh
# tools/regress_corpus.sh : for every fix: commit in /repo, revert it in a scratch worktree, run the check that first saw the defect and keep up to
# three minimised replays as corpus/<id>/regress-<hash>-<n>.json (deterministic regression cases, run first in every tier).
cd "$(dirname "$0")/.." || exit 2
mkdir -p out
while read -r hash ids; do
  wt=$(mktemp -d /tmp/vf-rg-XXXXXX); rmdir "$wt"
  git -C /repo worktree add -q "$wt" HEAD || continue
  if ! git -C "$wt" revert --no-commit "$hash" >/dev/null 2>&1; then echo "$hash: revert conflicts, skipped"; git -C /repo worktree remove --force "$wt"; continue; fi
  for id in $ids; do
    rm -f out/replay/$id-*.json
    VERIF_REPO="$wt" ./check "$id" > "out/rg-$hash-$id.log" 2>&1
    n=0
    for f in out/replay/$id-*.json; do
      [ -f "$f" ] || continue
      grep -q "$f" "out/rg-$hash-$id.log" || continue
      grep -B0 -A0 "VIOLATION.*$(basename "$f")" "out/rg-$hash-$id.log" >/dev/null || continue
      n=$((n+1)); [ $n -gt 3 ] && break
      mkdir -p corpus/$id; cp "$f" "corpus/$id/regress-$hash-$n.json"
    done
    echo "$hash $id kept=$n $(tail -1 out/rg-$hash-$id.log | cut -c1-100)"
  done
  git -C /repo worktree remove --force "$wt"
done <<LIST
2816b79 C07
dc250a1 C07
9db626f C05
3645614 C05
ea79a7c C10
3338bd9 C10
f3393bd C10
da453f0 C12 C06
13e2978 C12
8d2eeda C06
e51a300 C19
75a6c13 C19
efb06fe C19
2a18f29 C19 C13
9b6d21c C19
6c8b882 C19
ab63338 C08
49420e4 C16
bc55396 C16
2927881 C19
3905890 C06
4354e10 C09
ac10d4b C14
baf1ef2 C14
c1d8696 C12 C01
b07ea5c C05
c49c330 C20
21f8a1e C10
7a3b114 C16
70eb3db C16
e416d58 C07
341ef7e C19
f89ce52 C13 C10
4c5f5c3 C13
3f75171 C10
bc0d713 C10
9500a73 C14
894c061 C14
4d9c9d1 C15 C01
3a169e8 C19
8026e10 C09
ba336bb C19 C10
2d0f122 C16
1adc0f1 C15
82a475f C09
c1875a2 C14
0d81d29 C11
749e897 C19
6112cb1 C19
c2be3c9 C07
2c9ca16 C10
51cc715 C09
e57b5cb C14
1f17f67 C06
300dfe4 C19
69e04a0 C09
77c373c C07
205de03 C19
9f911fd C13
LIST
