#!/bin/sh
# tools/seeds_regress.sh [names...] : re-apply every kept seeded change to a scratch worktree of /repo HEAD and run the checks recorded as
# catching it (meta.json caught_by); prints one line per seed: CAUGHT / MISSED / NOAPPLY (the patch no longer applies to HEAD).
cd "$(dirname "$0")/.." || exit 2
export VERIF_EVIDENCE_DIR="$PWD/out/evidence-scratch"; mkdir -p "$VERIF_EVIDENCE_DIR"   # these runs must not overwrite evidence/
mkdir -p out
names="$*"
[ -z "$names" ] && names=$(ls seeded)
for n in $names; do
  d=seeded/$n
  [ -f "$d/patch.diff" ] || continue
  ids=$(/venv/bin/python -c "import json,sys; print(' '.join(json.load(open('$d/meta.json')).get('caught_by') or []))")
  [ -z "$ids" ] && { echo "$n SKIP (no check recorded as catching it)"; continue; }
  wt=$(mktemp -d /tmp/vf-sr-XXXXXX); rmdir "$wt"
  git -C /repo worktree add -q --detach "$wt" HEAD || continue
  if ! git -C "$wt" apply "$PWD/$d/patch.diff" 2>/dev/null; then
    if ! git -C "$wt" apply --3way "$PWD/$d/patch.diff" >/dev/null 2>&1; then echo "$n NOAPPLY"; git -C /repo worktree remove --force "$wt"; continue; fi
  fi
  res=""
  for id in $ids; do
    VERIF_REPO="$wt" ./check "$id" --no-min > "out/sr-$n-$id.log" 2>&1
    rc=$?
    [ $rc -eq 1 ] && res="$res $id:caught" || res="$res $id:rc$rc"
  done
  case "$res" in *caught*) echo "$n CAUGHT$res";; *) echo "$n MISSED$res";; esac
  git -C /repo worktree remove --force "$wt"
done
