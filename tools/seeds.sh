#!/bin/sh
# tools/seeds.sh "<seed list>" [ids...] : run the quick checks at several VERIF_SEED values, one summary line per run
seeds="$1"; shift
cd "$(dirname "$0")/.." || exit 2
export VERIF_EVIDENCE_DIR="$PWD/out/evidence-scratch"; mkdir -p "$VERIF_EVIDENCE_DIR"   # these runs must not overwrite evidence/
mkdir -p out
for s in $seeds; do
  echo "== VERIF_SEED=$s"
  VERIF_SEED=$s ./runall.sh quick "$@"
done
