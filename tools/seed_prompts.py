#!/usr/bin/env python3
"""tools/seed_prompts.py <round-dir> [ids...] : write one task prompt per property for an independent sub-agent that seeds a
property-breaking change in its own scratch worktree <round-dir>/<id> (created here from /repo HEAD).  The prompt carries the property text
and the summaries of the changes already kept under seeded/ (so that a new root cause is asked for); nothing else from /verif."""
import glob
import json
import os
import subprocess
import sys

HERE = os.path.dirname(os.path.dirname(os.path.abspath(__file__)))
HINTS = ('Good places that have been used little so far: the hand-written per-class modules (transaction.py, custom.py, cost_spec.py, cost.py, '
         'posting.py, meta_item_internal.py, meta_value_internal.py, number_*_expr.py, tolerance / price / amount helpers), the parser\'s '
         'ModelBuilder / PostLex, base.py, internal/repeated.py, internal/fields.py, internal/properties.py, internal/value_properties.py, '
         'internal/surrounding_comments.py, internal/interleaving_comments.py, internal/spacing_accessors.py, printer.py, editor.py, token_store.py. '
         'A change confined to ONE class or ONE field (so that only that class/field misbehaves) is especially welcome, as is one that needs an '
         'unusual but legal layout of the input text (tabs, CRLF, comments in odd places, missing final newline, empty lists), or a history of two '
         'or three different operations on the same object.')


def main() -> None:
    rdir = sys.argv[1]
    ids = sys.argv[2:]
    props = {}
    for line in open(os.path.join(HERE, 'properties.jsonl')):
        d = json.loads(line)
        props[d['id']] = d
    os.makedirs(os.path.join(rdir, 'prompts'), exist_ok=True)
    for pid in ids or sorted(props):
        d = props[pid]
        wt = os.path.join(rdir, pid)
        if not os.path.isdir(wt):
            subprocess.run(['git', '-C', os.environ.get('VERIF_REPO', '/repo'), 'worktree', 'add', '-q', '--detach', wt], check=True)
        prior = []
        for m in sorted(glob.glob(os.path.join(HERE, 'seeded', pid + '-*', 'meta.json'))):
            mm = json.load(open(m))
            prior.append(f"- {mm.get('summary', '').strip()} (files: {', '.join(mm.get('files', []))})")
        text = f"""You are working in a scratch git worktree of the Python project autobean-refactor (a lossless beancount ledger parser and editor: lark grammar -> concrete syntax tree over a token store, with edits that preserve formatting). Your worktree is {wt}. Work ONLY inside it. Do NOT read, list or write anything under /verif or /repo.

Running code: use /venv/bin/python. Run pytest from inside the worktree (then it imports the worktree's code): `cd {wt} && /venv/bin/python -m pytest -q -p no:cacheprovider --benchmark-disable --deselect autobean_refactor/tests/benchmark` (about 10 s, ~1660 tests). For scripts use `PYTHONPATH={wt} /venv/bin/python script.py` so your worktree's code is imported. Docs are under {wt}/docs, the library under {wt}/autobean_refactor.

A property that this library is supposed to satisfy:

  Title: {d['title']}
  Statement: {d['statement']}
  It must hold for: {d['quantifier']['text']}
  Code it is anchored in: {', '.join(d['anchors']['files'])}

Your task: make a small, realistic change to the library source (files under autobean_refactor/, NOT the tests, no new files) that BREAKS this property - really breaks it, as the statement is worded, not merely something in its neighbourhood - while the code still imports and the complete existing test suite (command above) still passes. It should be the kind of defect a developer could plausibly introduce (off-by-one, a missing case, wrong order of two steps, a dropped update or notification, wrong separator, a too-narrow condition, an optimisation that is wrong in a corner). Important: it must need something SPECIFIC to manifest - a multi-step sequence of operations, an unusual but legal input, a particular index/position/size, a second operation through something the first one left behind, or two cooperating sites that each look fine alone - not something that ordinary use or the simplest example would expose at once. Prefer a subtle change over a blatant one; do not break unrelated behaviour more than necessary.

Note: files under autobean_refactor/models/generated/ are byte-compared with the output of the generator (autobean_refactor/modelgen) by one of the tests, so a direct edit there fails the suite; change the generator and regenerate consistently, or stay out of that directory.

Deliverables, all written into {wt}/_seed/ :
 1. patch.diff - the output of `git -C {wt} diff -- autobean_refactor` (your source change only).
 2. demo.py - a small standalone script that checks the property on a concrete scenario: it exits 0 when the property holds and exits 1 (printing what went wrong) when it is violated. It must exit 1 WITH your change and exit 0 on the ORIGINAL code. Verify both: undo the change with `git -C {wt} diff -- autobean_refactor > {wt}/_seed/patch.diff && git -C {wt} apply -R {wt}/_seed/patch.diff`, run the demo, then re-apply with `git -C {wt} apply {wt}/_seed/patch.diff` (do NOT use git stash: the stash is shared by all worktrees of the repository and other agents work in parallel).
 3. meta.json - {{"property": "{pid}", "summary": "<one sentence: what you changed>", "needs": "<what specific input / sequence / position is required for the violation to show>", "files": ["..."]}}
Leave the worktree with your change applied.

Before finishing, confirm all three: (a) the full test suite passes with your change, (b) demo.py exits 1 with your change, (c) demo.py exits 0 without it. In your final message report briefly: the change, what is needed to trigger it, and the three confirmations. If after a real effort you cannot find a change that keeps the test suite green, say so and describe the closest you got.

ADDITIONAL CONSTRAINT FOR THIS ROUND: property-breaking changes of this kind have already been collected for this property:
{chr(10).join(prior) if prior else '- (none yet)'}
Make a DIFFERENT change: a different root cause, in a different function from ALL of the above (preferably a different file), with a different trigger. Do not revert a recent fix visible in `git log`. {HINTS}
"""
        open(os.path.join(rdir, 'prompts', pid + '.txt'), 'w').write(text)
        print(pid, wt, len(prior), 'prior')


if __name__ == '__main__':
    main()
