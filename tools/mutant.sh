#!/bin/sh
# tools/mutant.sh <patch.diff> <ids...> : apply a patch to a scratch worktree of /repo (never to /repo itself),
# run the given quick checks against it through VERIF_REPO, print one line per check, remove the worktree.
patch="$1"; shift
wt=$(mktemp -d /tmp/vf-mut-XXXXXX)
rmdir "$wt"
git -C /repo worktree add -q "$wt" HEAD || exit 2
if ! git -C "$wt" apply "$patch"; then echo "patch does not apply"; git -C /repo worktree remove --force "$wt"; exit 2; fi
cd "$(dirname "$0")/.." || exit 2
mkdir -p out
for id in "$@"; do
  VERIF_REPO="$wt" ./check "$id" --no-min > "out/mut-$id.log" 2>&1
  echo "rc=$? $(tail -1 out/mut-$id.log | cut -c1-160)"
  grep -h "bucket=" "out/mut-$id.log" | head -3
done
git -C /repo worktree remove --force "$wt"
