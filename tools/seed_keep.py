"""tools/seed_keep.py <seed dir> <name> <property> <caught_by comma list> <missed_by comma list> "<what I ran>"
Copies a verified seeded change into /verif/seeded/<name>/ and completes its meta.json."""
import json, os, shutil, sys
sd, name, prop, caught, missed, ran = sys.argv[1:7]
dst = os.path.join(os.path.dirname(os.path.dirname(os.path.abspath(__file__))), 'seeded', name)
os.makedirs(dst, exist_ok=True)
for f in ('patch.diff', 'demo.py'):
    shutil.copy(os.path.join(sd, f), os.path.join(dst, f))
meta = json.load(open(os.path.join(sd, 'meta.json')))
meta['property'] = prop
meta['caught_by'] = [c for c in caught.split(',') if c]
meta['missed_by'] = [c for c in missed.split(',') if c]
meta['verified'] = ran
json.dump(meta, open(os.path.join(dst, 'meta.json'), 'w'), indent=1)
print('kept', dst)
