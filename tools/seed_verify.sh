#!/bin/sh
# tools/seed_verify.sh <seed dir with patch.diff demo.py meta.json> <check ids...>
# Confirms in a fresh scratch worktree of /repo: demo passes without the change, fails with it, the repository's test suite
# passes with it; then runs the given quick checks against the changed worktree. Removes the worktree afterwards.
sd="$1"; shift
tag=$(basename "$(dirname "$sd")")   # per-seed log names: several verifications may run side by side
wt=$(mktemp -d /tmp/vf-sv-XXXXXX); rmdir "$wt"
git -C /repo worktree add -q "$wt" HEAD || exit 2
cd "$(dirname "$0")/.." || exit 2
export VERIF_EVIDENCE_DIR="$PWD/out/evidence-scratch"; mkdir -p "$VERIF_EVIDENCE_DIR"   # these runs must not overwrite evidence/
mkdir -p out
PYTHONPATH="$wt" /venv/bin/python "$sd/demo.py" > out/sv-$tag-demo0.log 2>&1; d0=$?
if ! git -C "$wt" apply "$sd/patch.diff"; then echo "PATCH DOES NOT APPLY"; git -C /repo worktree remove --force "$wt"; exit 2; fi
PYTHONPATH="$wt" /venv/bin/python "$sd/demo.py" > out/sv-$tag-demo1.log 2>&1; d1=$?
(cd "$wt" && /venv/bin/python -m pytest -q -p no:cacheprovider --benchmark-disable --deselect autobean_refactor/tests/benchmark -x > /tmp/sv-tests-$tag.log 2>&1); t=$?
echo "[$tag] demo_without=$d0 demo_with=$d1 tests_with=$t ($(tail -1 /tmp/sv-tests-$tag.log | cut -c1-60))"
for id in "$@"; do
  VERIF_REPO="$wt" ./check "$id" --no-min > "out/sv-$tag-$id.log" 2>&1
  echo "  check $id rc=$? $(tail -1 out/sv-$tag-$id.log | cut -c1-150)"
  grep -h "bucket=" "out/sv-$tag-$id.log" | head -4
done
git -C /repo worktree remove --force "$wt"
