#!/bin/sh
# tools/seeds_parallel.sh "<seed list>" : like seeds.sh, but with per-seed log files (out/ms-<seed>-<id>.log) so that several lanes can run
# side by side; prints one line per check: seed, exit code, summary.
cd "$(dirname "$0")/.." || exit 2
export VERIF_EVIDENCE_DIR="$PWD/out/evidence-scratch"; mkdir -p "$VERIF_EVIDENCE_DIR"   # these runs must not overwrite evidence/
mkdir -p out
for s in $1; do
  for id in C01 C02 C03 C04 C05 C06 C07 C08 C09 C10 C11 C12 C13 C14 C15 C16 C17 C18 C19 C20; do
    VERIF_SEED=$s ./check $id > out/ms-$s-$id.log 2>&1; rc=$?
    echo "seed=$s rc=$rc $(grep -m1 'tier=' out/ms-$s-$id.log | cut -c1-150)"
  done
done
