#!/bin/sh
# ./runall.sh [tier] [ids...] : run the registered checks one after the other and print one summary line each
tier="${1:-quick}"; shift 2>/dev/null
ids="$*"
[ -z "$ids" ] && ids=$(python3 -c "import json;print(' '.join(c['property_id'] for c in json.load(open('MANIFEST.json'))['checks']))")
mkdir -p out
for id in $ids; do
  ./check "$id" --tier "$tier" > "out/last-$id.log" 2>&1
  rc=$?
  echo "rc=$rc $(tail -1 out/last-$id.log)"
  grep -h "^VIOLATION\|^HARNESS" "out/last-$id.log" | head -5
done
