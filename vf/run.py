"""Runner: tiers, sharding, seeds, collect -> bucket -> minimise, evidence, known findings, exit codes.

    ./check <id> [--tier quick|thorough] [--replay file]

Exit codes: 0 held on everything explored, 1 violation (with VIOLATION lines), 2 harness error.
"""
from __future__ import annotations

import argparse
import collections
import hashlib
import importlib
import json
import multiprocessing
import os
import re
import sys
import time
import traceback
from typing import Any, Callable, Iterable, Optional

ROOT = os.path.dirname(os.path.dirname(os.path.abspath(__file__)))
EVIDENCE_DIR = os.environ.get('VERIF_EVIDENCE_DIR') or os.path.join(ROOT, 'evidence')   # the scratch tools (seeded trees, extra seeds) redirect it
REPLAY_DIR = os.path.join(ROOT, 'out', 'replay')
KNOWN_FINDINGS = os.path.join(ROOT, 'known_findings.json')

ALL_IDS = ['C%02d' % i for i in range(1, 21)]


class HarnessError(Exception):
    pass


class Result:
    """Outcome of one case. violations: list of (bucket, message)."""
    __slots__ = ('violations', 'nontrivial', 'classes', 'discard', 'excluded_known')

    def __init__(self, violations=None, nontrivial=False, classes=(), discard=False, excluded_known=0):
        self.violations = list(violations or [])
        self.nontrivial = nontrivial
        self.classes = list(classes)
        self.discard = discard
        self.excluded_known = excluded_known

    def bad(self, bucket: str, msg: str = '') -> 'Result':
        self.violations.append((bucket, msg))
        return self


class Job:
    """kind 'hyp': make() returns build(rnd) -> case, n cases are drawn (split over the shards).
    kind 'enum': make() returns an iterable of cases (sharded round-robin)."""

    def __init__(self, name: str, kind: str, make: Callable[[], Any], n: int = 0, exhaustive: bool = False):
        self.name, self.kind, self.make, self.n, self.exhaustive = name, kind, make, n, exhaustive


def case_hash(case: Any) -> str:
    return hashlib.sha1(json.dumps(case, sort_keys=True, default=str).encode()).hexdigest()[:16]


def _short(case: Any, limit: int = 1500) -> Any:
    s = json.dumps(case, default=str)
    if len(s) <= limit:
        return case
    return {'truncated_json': s[:limit] + '...', 'full_length': len(s)}


class Collector:
    def __init__(self) -> None:
        self.evaluations = 0
        self.discards = 0
        self.skipped_budget = 0
        self.excluded_known = 0
        self.nontrivial: set[str] = set()
        self.classes: collections.Counter = collections.Counter()
        self.samples_nt: list = []
        self.samples_other: list = []
        self.buckets: dict[str, dict] = {}
        self.errors: list = []
        self.jobs: dict[str, dict] = {}
        self.budget_exhausted = False

    def record(self, case: Any, res: Result, job: str) -> None:
        self.evaluations += 1
        j = self.jobs.setdefault(job, {'evaluations': 0, 'nontrivial': 0, 'discards': 0})
        j['evaluations'] += 1
        self.excluded_known += res.excluded_known
        if res.discard:
            self.discards += 1
            j['discards'] += 1
            return
        for c in res.classes:
            self.classes[c] += 1
        if res.nontrivial:
            h = case_hash(case)
            if h not in self.nontrivial:
                self.nontrivial.add(h)
                j['nontrivial'] += 1
                if len(self.samples_nt) < 3:
                    self.samples_nt.append(_short(case))
        elif len(self.samples_other) < 1:
            self.samples_other.append(_short(case))
        for bucket, msg in res.violations:
            b = self.buckets.get(bucket)
            size = len(json.dumps(case, default=str))
            if b is None:
                self.buckets[bucket] = {'count': 1, 'case': case, 'msg': msg, 'size': size}
            else:
                b['count'] += 1
                if size < b['size']:
                    b.update(case=case, msg=msg, size=size)

    def dump(self) -> dict:
        return {
            'evaluations': self.evaluations, 'discards': self.discards,
            'skipped_budget': self.skipped_budget, 'excluded_known': self.excluded_known,
            'nontrivial': self.nontrivial, 'classes': dict(self.classes),
            'samples_nt': self.samples_nt, 'samples_other': self.samples_other,
            'buckets': self.buckets, 'errors': self.errors, 'jobs': self.jobs,
            'budget_exhausted': self.budget_exhausted,
        }

    def merge(self, d: dict) -> None:
        self.evaluations += d['evaluations']
        self.discards += d['discards']
        self.skipped_budget += d['skipped_budget']
        self.excluded_known += d['excluded_known']
        self.nontrivial |= d['nontrivial']
        self.classes.update(d['classes'])
        self.samples_nt = (self.samples_nt + d['samples_nt'])[:3]
        self.samples_other = (self.samples_other + d['samples_other'])[:1]
        self.errors = (self.errors + d['errors'])[:5]
        self.budget_exhausted = self.budget_exhausted or d['budget_exhausted']
        for k, v in d['jobs'].items():
            j = self.jobs.setdefault(k, {'evaluations': 0, 'nontrivial': 0, 'discards': 0})
            for kk, vv in v.items():
                if isinstance(vv, (int, float)) and not isinstance(vv, bool):
                    j[kk] = j.get(kk, 0) + vv
                else:
                    j[kk] = vv
        for bucket, b in d['buckets'].items():
            mine = self.buckets.get(bucket)
            if mine is None:
                self.buckets[bucket] = dict(b)
            else:
                mine['count'] += b['count']
                if b['size'] < mine['size']:
                    mine.update(case=b['case'], msg=b['msg'], size=b['size'])


def derive_seed(seed: int, *parts: Any) -> int:
    h = hashlib.sha256(':'.join([str(seed), *map(str, parts)]).encode()).hexdigest()
    return int(h[:12], 16)


def _run_shard(args: tuple) -> dict:
    pid, tier, seed, shard, nshards, budget_s = args
    col = Collector()
    t_end = time.time() + budget_s
    try:
        mod = load_prop(pid)
        if shard == 0:
            for name, case in corpus_cases(pid):
                _one(mod, case, col, 'corpus')
        for job in mod.jobs(tier):
            if job.kind == 'hyp':
                _run_hyp(mod, job, col, seed, shard, nshards, t_end)
            elif job.kind == 'fuzz':
                if shard == 0:
                    _run_fuzz(mod, job, col, seed, t_end)
            elif job.kind == 'enum':
                for i, case in enumerate(job.make()):
                    if i % nshards != shard:
                        continue
                    if time.time() > t_end:
                        col.budget_exhausted = True
                        col.skipped_budget += 1
                        break
                    _one(mod, case, col, job.name)
            else:
                raise HarnessError(f'unknown job kind {job.kind}')
    except Exception:
        col.errors.append({'where': 'shard', 'trace': traceback.format_exc()})
    return col.dump()


def _one(mod: Any, case: Any, col: Collector, job: str) -> None:
    try:
        res = mod.run_case(case)
    except Exception as e:
        tb = traceback.extract_tb(e.__traceback__)
        inner = tb[-1] if tb else None
        repo = os.path.join(os.environ.get('VERIF_REPO') or '/repo', 'autobean_refactor')
        if inner is not None and os.path.abspath(inner.filename).startswith(repo) and any(
                os.path.abspath(f.filename).startswith(os.path.join(ROOT, 'vf', 'obs')) or f.name in ('print_text', 'invariants', 'digest', 'walk')
                for f in tb):
            # the oracle's own observation of the document (printing, walking, reading spans) blew up inside the library: the document is
            # no longer a consistent tree over its store. Reported as a violation of the property under check, with the trace.
            res = Result().bad(f'document-unobservable:{type(e).__name__}:{os.path.basename(inner.filename)}:{inner.name}',
                               'observing the document raised inside the library: ' + traceback.format_exc()[-1500:])
            col.record(case, res, job)
            return
        if len(col.errors) < 3:
            col.errors.append({'where': 'run_case', 'job': job, 'case': _short(case, 4000), 'trace': traceback.format_exc()})
        return
    col.record(case, res, job)


def _run_hyp(mod: Any, job: Job, col: Collector, seed: int, shard: int, nshards: int, t_end: float) -> None:
    import hypothesis
    from hypothesis import HealthCheck, Phase, given, settings, strategies as st
    n = job.n // nshards + (1 if shard < job.n % nshards else 0)
    if n <= 0:
        return
    build = job.make()
    if isinstance(build, st.SearchStrategy):
        strat = build
    else:
        @st.composite
        def strat_fn(draw: Any) -> Any:
            rnd = draw(st.randoms(use_true_random=False))
            try:
                return build(rnd)
            except Exception:  # a generator bug must surface as a harness error, not as a Hypothesis failure
                if len(col.errors) < 3:
                    col.errors.append({'where': 'build', 'job': job.name, 'trace': traceback.format_exc()})
                return None
        strat = strat_fn()

    @hypothesis.seed(derive_seed(seed, mod.ID, job.name, shard))
    @settings(max_examples=n, database=None, deadline=None, derandomize=False,
              suppress_health_check=list(HealthCheck), phases=[Phase.generate],
              report_multiple_bugs=False)
    @given(strat)
    def test(case: Any) -> None:
        if case is None:
            return
        if time.time() > t_end:
            col.budget_exhausted = True
            col.skipped_budget += 1
            return
        _one(mod, case, col, job.name)

    test()


def corpus_cases(pid: str) -> list:
    """Committed minimal cases (regressions of fixed defects, triggers of open findings): run first in every tier."""
    d = os.path.join(ROOT, 'corpus', pid)
    out = []
    if os.path.isdir(d):
        for name in sorted(os.listdir(d)):
            if name.endswith('.json'):
                with open(os.path.join(d, name)) as f:
                    doc = json.load(f)
                out.append((name, doc['case'] if isinstance(doc, dict) and 'case' in doc else doc))
    return out


def _run_fuzz(mod: Any, job: Job, col: Collector, seed: int, t_end: float) -> None:
    """Coverage-guided campaign (atheris/libFuzzer) in a subprocess; the oracle lives inside the target (vf/fuzz/target.py).
    Fixed -runs and -seed, fresh corpus directory seeded from the generator. Failing inputs come back as replay files and are
    re-judged here by run_case, so that bucketing and known findings apply. A missing atheris only skips the campaign."""
    import shutil
    import subprocess
    spec = job.make()
    try:
        from vf import deps
        deps.ensure('atheris')
    except Exception:  # noqa: BLE001
        col.jobs.setdefault(job.name, {'evaluations': 0, 'nontrivial': 0, 'discards': 0})['skipped'] = 'atheris not available'
        return
    base = os.path.join(ROOT, 'out', 'fuzz', mod.ID)
    shutil.rmtree(base, ignore_errors=True)
    corpus = os.path.join(base, 'corpus')
    os.makedirs(corpus)
    for i, data in enumerate(spec.get('seeds', [])):
        with open(os.path.join(corpus, 'seed%04d' % i), 'wb') as f:
            f.write(data)
    stats = os.path.join(base, 'stats.json')
    replay = os.path.join(base, 'replay')
    cmd = [sys.executable, '-m', 'vf.fuzz.target', mod.ID, stats, replay, '-runs=%d' % spec['runs'], '-seed=%d' % (derive_seed(seed, mod.ID, 'fuzz') % (2 ** 31 - 2) + 1),
           '-max_len=%d' % spec.get('max_len', 400), '-dict=' + os.path.join(ROOT, 'vf', 'fuzz', 'beancount.dict'), '-print_final_stats=0', corpus]
    budget = max(30.0, t_end - time.time())
    try:
        subprocess.run(cmd, cwd=ROOT, env=dict(os.environ), stdout=subprocess.DEVNULL, stderr=subprocess.DEVNULL, timeout=budget)
    except subprocess.TimeoutExpired:
        col.budget_exhausted = True
    try:
        with open(stats) as f:
            st = json.load(f)
    except Exception:  # noqa: BLE001
        st = {'execs': 0, 'accepted': 0, 'nontrivial_hashes': 0, 'classes': {}}
    j = col.jobs.setdefault(job.name, {'evaluations': 0, 'nontrivial': 0, 'discards': 0})
    j['evaluations'] += st['execs']
    j['nontrivial'] += st['nontrivial_hashes']
    j['discards'] += st['execs'] - st['accepted']
    j['accepted'] = st['accepted']
    col.evaluations += st['execs']
    col.fuzz_discards = getattr(col, 'fuzz_discards', 0) + st['execs'] - st['accepted']
    col.nontrivial |= {'fuzz-%s-%d' % (mod.ID, i) for i in range(st['nontrivial_hashes'])}
    for c, n in st.get('classes', {}).items():
        col.classes['fuzz:' + c] += n
    if os.path.isdir(replay):
        for name in sorted(os.listdir(replay)):
            try:
                with open(os.path.join(replay, name)) as f:
                    case = json.load(f)['case']
            except Exception:  # noqa: BLE001
                continue
            _one(mod, case, col, job.name)


def load_prop(pid: str) -> Any:
    return importlib.import_module('vf.props.' + pid.lower())


# --------------------------------------------------------------------------- minimisation

def _paths_lists(case: Any, keys: Iterable[str]) -> list[list]:
    out = []
    if isinstance(case, dict):
        for k in keys:
            if isinstance(case.get(k), list):
                out.append(case[k])
    return out


def minimise(mod: Any, case: Any, bucket: str, budget: int = 250) -> Any:
    """Delta-debug the case while run_case still reports `bucket`. Bounded number of re-executions."""
    import copy
    calls = [0]

    def still(c: Any) -> bool:
        if calls[0] >= budget:
            return False
        calls[0] += 1
        try:
            r = mod.run_case(c)
        except Exception:
            return False
        return any(b == bucket for b, _ in r.violations)

    best = copy.deepcopy(case)
    keys = getattr(mod, 'SHRINK_LISTS', ('ops', 'dirs'))
    changed = True
    while changed and calls[0] < budget:
        changed = False
        for key in keys:
            if not (isinstance(best, dict) and isinstance(best.get(key), list)):
                continue
            n = len(best[key])
            chunk = max(n // 2, 1)
            while chunk >= 1 and calls[0] < budget:
                i = 0
                while i < len(best[key]) and calls[0] < budget:
                    cand = copy.deepcopy(best)
                    del cand[key][i:i + chunk]
                    if len(cand[key]) < len(best[key]) and still(cand):
                        best = cand
                        changed = True
                    else:
                        i += chunk
                chunk //= 2
        # scalar simplification inside ops: ints towards 0
        for key in keys:
            if key != 'ops' or not isinstance(best.get(key), list):
                continue
            for oi, op in enumerate(best[key]):
                if not isinstance(op, dict):
                    continue
                for k, v in list(op.items()):
                    if isinstance(v, bool) or not isinstance(v, int) or v == 0 or calls[0] >= budget:
                        continue
                    cand = copy.deepcopy(best)
                    cand[key][oi][k] = 0
                    if still(cand):
                        best = cand
                        changed = True
    return best


# --------------------------------------------------------------------------- known findings

def load_known(pid: str) -> list[dict]:
    if not os.path.exists(KNOWN_FINDINGS):
        return []
    with open(KNOWN_FINDINGS) as f:
        data = json.load(f)
    return [e for e in data.get('open', []) if e.get('property') == pid]


def match_known(known: list[dict], bucket: str) -> Optional[dict]:
    for e in known:
        if re.fullmatch(e['bucket'], bucket):
            return e
    return None


# --------------------------------------------------------------------------- main

def write_evidence(pid: str, doc: dict) -> None:
    os.makedirs(EVIDENCE_DIR, exist_ok=True)
    tmp = os.path.join(EVIDENCE_DIR, pid + '.json.tmp')
    with open(tmp, 'w') as f:
        json.dump(doc, f, indent=1, default=str, sort_keys=True)
        f.write('\n')
    os.replace(tmp, os.path.join(EVIDENCE_DIR, pid + '.json'))


def report_buckets(pid: str, mod: Any, buckets: dict, do_min: bool = True) -> tuple[int, int, list]:
    known = load_known(pid)
    nviol = nknown = 0
    listing = []
    os.makedirs(REPLAY_DIR, exist_ok=True)
    for bucket in sorted(buckets):
        b = buckets[bucket]
        k = match_known(known, bucket)
        case = b['case']
        if do_min and k is None:
            try:
                case = minimise(mod, case, bucket)
            except Exception:
                pass
        msg = b['msg']
        try:
            r = mod.run_case(case)
            for bb, mm in r.violations:
                if bb == bucket:
                    msg = mm
        except Exception:
            pass
        safe = re.sub(r'[^A-Za-z0-9_.-]+', '_', bucket)[:100]
        path = os.path.join(REPLAY_DIR, f'{pid}-{safe}.json')
        with open(path, 'w') as f:
            json.dump({'property': pid, 'bucket': bucket, 'message': msg, 'count': b['count'], 'case': case},
                      f, indent=1, default=str)
        rel = os.path.relpath(path, ROOT)
        if k is not None:
            nknown += 1
            print(f"KNOWN-FINDING: property={pid} {k['what']} [bucket {bucket}, {b['count']} case(s), replay={rel}]")
        else:
            nviol += 1
            print(f'VIOLATION property={pid} replay={rel}')
            print(f'  bucket={bucket} count={b["count"]}')
            print('  ' + msg.replace('\n', '\n  ')[:2000])
        listing.append({'bucket': bucket, 'count': b['count'], 'known': k is not None, 'replay': rel})
    return nviol, nknown, listing


def main(argv: Optional[list[str]] = None) -> int:
    ap = argparse.ArgumentParser()
    ap.add_argument('pid')
    ap.add_argument('--tier', default=os.environ.get('VERIF_TIER') or 'quick', choices=['quick', 'thorough'])
    ap.add_argument('--replay')
    ap.add_argument('--jobs', type=int, default=0)
    ap.add_argument('--no-min', action='store_true')
    args = ap.parse_args(argv)
    pid = args.pid.upper()
    if pid not in ALL_IDS:
        print(f'HARNESS-ERROR: unknown property {pid}')
        return 2
    try:
        seed = int(os.environ.get('VERIF_SEED') or '1')
    except ValueError:
        seed = 1
    from vf import deps
    try:
        deps.ensure()
        mod = load_prop(pid)
    except Exception:
        print('HARNESS-ERROR: cannot load property module\n' + traceback.format_exc())
        return 2

    if args.replay:
        with open(args.replay) as f:
            doc = json.load(f)
        case = doc['case'] if isinstance(doc, dict) and 'case' in doc else doc
        try:
            res = mod.run_case(case)
        except Exception:
            print('HARNESS-ERROR: replay raised\n' + traceback.format_exc())
            return 2
        if res.discard:
            print('replay: case discarded (input not accepted)')
            return 0
        known = load_known(pid)
        rc = 0
        for bucket, msg in res.violations:
            k = match_known(known, bucket)
            if k:
                print(f"KNOWN-FINDING: property={pid} {k['what']} [bucket {bucket}]")
            else:
                print(f'VIOLATION property={pid} replay={args.replay}')
                print(f'  bucket={bucket}\n  ' + msg.replace('\n', '\n  ')[:4000])
                rc = 1
        if not res.violations:
            print('replay: no violation')
        return rc

    tier = args.tier
    t0 = time.time()
    default_jobs = 4 if tier == 'quick' else 16
    nshards = args.jobs or int(os.environ.get('VERIF_JOBS') or default_jobs)
    nshards = max(1, min(nshards, os.cpu_count() or 1))
    budget_s = float(os.environ.get('VERIF_BUDGET_S') or (240 if tier == 'quick' else 3600))
    col = Collector()
    work = [(pid, tier, seed, s, nshards, budget_s) for s in range(nshards)]
    if nshards == 1:
        parts = [_run_shard(work[0])]
    else:
        ctx = multiprocessing.get_context('fork')
        with ctx.Pool(nshards) as pool:
            parts = pool.map(_run_shard, work, chunksize=1)
    for d in parts:
        col.merge(d)

    rc = 0
    if col.errors:
        print('HARNESS-ERROR: the harness raised while running cases (no verdict from those cases)')
        for e in col.errors[:3]:
            print(json.dumps({k: v for k, v in e.items() if k != 'trace'}, default=str)[:3000])
            print(e['trace'])
        rc = 2

    nviol, nknown, listing = report_buckets(pid, mod, col.buckets, do_min=not args.no_min)
    if nviol:
        rc = 1   # a reported violation outranks harness errors met on other cases (those are printed above)

    accepted = col.evaluations - col.discards
    required = getattr(mod, 'REQUIRED_CLASSES', ())
    missing = [c for c in required if not col.classes.get(c)]
    if rc == 0 and missing and not col.budget_exhausted:
        print(f'HARNESS-ERROR: generator never produced required classes: {missing}')
        rc = 2
    if rc == 0 and col.evaluations and col.discards > 0.35 * max(1, col.evaluations - sum(v.get('evaluations', 0) for k, v in col.jobs.items() if k.startswith('fuzz'))):
        print(f'HARNESS-ERROR: discard rate {col.discards}/{col.evaluations} too high (generator unsound)')
        rc = 2

    samples = col.samples_nt + col.samples_other
    if not samples:
        samples = ['(no case was generated)']
    joblist = mod.jobs(tier)
    evidence = {
        'property_id': pid,
        'tier': tier,
        'seed': seed,
        'level': 'exploration',
        'coverage': {
            'evaluations': col.evaluations,
            'distinct_nontrivial': len(col.nontrivial),
            'rule': mod.RULE,
            'samples': samples,
            'accepted': accepted,
            'discards': col.discards,
            'excluded_known': col.excluded_known,
            'skipped_budget': col.skipped_budget,
            'budget_exhausted': col.budget_exhausted,
            'classes': dict(sorted(col.classes.items())),
            'jobs': col.jobs,
            'exhaustive_jobs': [j.name for j in joblist if j.exhaustive],
            'buckets': listing,
            'shards': nshards,
        },
        'assumptions': list(getattr(mod, 'ASSUMPTIONS', [])),
        'wall_s': round(time.time() - t0, 2),
        'violations': nviol,
        'known_findings_reported': nknown,
        'harness_error': rc == 2,
    }
    write_evidence(pid, evidence)
    print(f'{pid} tier={tier} seed={seed} shards={nshards} evaluations={col.evaluations} '
          f'nontrivial={len(col.nontrivial)} discards={col.discards} violations={nviol} '
          f'known={nknown} wall={evidence["wall_s"]}s exit={rc}')
    return rc


if __name__ == '__main__':
    sys.exit(main())
