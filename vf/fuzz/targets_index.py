"""Selector tables shared by the fuzz target and the corpus seeding (no heavy imports)."""
C01_TARGETS = ['file', 'file', 'file', 'transaction', 'posting', 'open', 'custom', 'cost_spec', 'number_expr', 'amount', 'meta_item', 'balance',
               'note', 'unit_price', 'compound_amount', 'price']
