"""Coverage-guided fuzz targets (atheris / libFuzzer) with the property oracle inside the target.

    python -m vf.fuzz.target <C01|C12> <stats.json> <replay dir> [libFuzzer args...]

The first input byte selects the sub-target (parse target and attribution mode for C01, token class for C12); the rest is the text.
Counters are flushed to <stats.json> from inside the target (atexit does not run under libFuzzer). On a violation the case is
written to <replay dir> as a replay file for ./check <id> --replay and the process exits (libFuzzer stops at the first failure).
"""
from __future__ import annotations

import json
import os
import sys

import atheris

with atheris.instrument_imports(include=['autobean_refactor']):
    from autobean_refactor import models, parser as parser_lib  # noqa: F401

from vf.props import c01, c12  # noqa: E402

STATS = {'execs': 0, 'accepted': 0, 'nontrivial_hashes': 0, 'violations': 0, 'classes': {}}
_seen: set = set()
_paths = {'stats': '', 'replay': ''}

from vf.fuzz.targets_index import C01_TARGETS  # noqa: E402
C12_CLASSES = c12.VALUE_CLASSES


def flush() -> None:
    STATS['nontrivial_hashes'] = len(_seen)
    tmp = _paths['stats'] + '.tmp'
    with open(tmp, 'w') as f:
        json.dump(STATS, f)
    os.replace(tmp, _paths['stats'])


def fail(pid: str, case: dict, res) -> None:
    STATS['violations'] += 1
    flush()
    bucket, msg = res.violations[0]
    safe = ''.join(ch if ch.isalnum() or ch in '._-' else '_' for ch in bucket)[:80]
    path = os.path.join(_paths['replay'], f'{pid}-fuzz-{safe}.json')
    with open(path, 'w') as f:
        json.dump({'property': pid, 'bucket': 'fuzz:' + bucket, 'message': msg, 'count': 1, 'case': case}, f, indent=1)
    print(f'FUZZ-VIOLATION property={pid} bucket={bucket} replay={path}', flush=True)
    os._exit(77)


def one_c01(data: bytes) -> None:
    if len(data) < 1:
        return
    sel = data[0]
    try:
        text = data[1:].decode('utf-8')
    except UnicodeDecodeError:
        return
    target = C01_TARGETS[(sel >> 1) % len(C01_TARGETS)]
    case = {'target': target, 'claim': bool(sel & 1), 'raw': True, 'dirs': [[['X', text]]]}
    res = c01.run_case(case)
    STATS['execs'] += 1
    if not res.discard:
        STATS['accepted'] += 1
        for c in res.classes:
            if c.startswith(('target:', 'claim:', 'model:')):
                STATS['classes'][c] = STATS['classes'].get(c, 0) + 1
        if len(text) >= 8:
            _seen.add(hash((target, text)))
    known_ok = [v for v in res.violations if not v[0].startswith('print!=text:unowned-outer-trivia')]
    if known_ok:
        res.violations = known_ok
        fail('C01', case, res)
    if STATS['execs'] % 2000 == 0:
        flush()


def one_c12(data: bytes) -> None:
    if len(data) < 1:
        return
    rule = C12_CLASSES[data[0] % len(C12_CLASSES)]
    try:
        text = data[1:].decode('utf-8')
    except UnicodeDecodeError:
        return
    case = {'cls': rule, 'kind': 'candidate', 't': text}
    res = c12.run_case(case)
    STATS['execs'] += 1
    if 'accepted-candidate' in res.classes:
        STATS['accepted'] += 1
        _seen.add(hash((rule, text)))
        STATS['classes'][rule] = STATS['classes'].get(rule, 0) + 1
    if res.violations:
        fail('C12', case, res)
    if STATS['execs'] % 2000 == 0:
        flush()


def main() -> None:
    pid, _paths['stats'], _paths['replay'] = sys.argv[1], sys.argv[2], sys.argv[3]
    os.makedirs(_paths['replay'], exist_ok=True)
    argv = [sys.argv[0]] + sys.argv[4:]
    flush()
    atheris.Setup(argv, one_c01 if pid == 'C01' else one_c12)
    atheris.Fuzz()


if __name__ == '__main__':
    main()
