"""Offline dependency bootstrap: everything a check needs beyond the repository's own venv goes into .deps/."""
import importlib
import os
import subprocess
import sys

ROOT = os.path.dirname(os.path.dirname(os.path.abspath(__file__)))
DEPS = os.path.join(ROOT, '.deps')
WHEELS = '/opt/veriftools/wheels'


def _install(*pkgs: str) -> None:
    os.makedirs(DEPS, exist_ok=True)
    subprocess.run(
        [sys.executable, '-m', 'pip', 'install', '--quiet', '--no-index', '--find-links', WHEELS,
         '--target', DEPS, *pkgs],
        check=True, stdout=subprocess.DEVNULL)
    if DEPS not in sys.path:
        sys.path.append(DEPS)
    importlib.invalidate_caches()


def ensure(*extra: str) -> None:
    for mod, pkg in [('hypothesis', 'hypothesis'), *[(e, e) for e in extra]]:
        try:
            importlib.import_module(mod)
        except ImportError:
            _install(pkg)
            importlib.import_module(mod)


if __name__ == '__main__':
    ensure(*sys.argv[1:])
    print('deps ok')
