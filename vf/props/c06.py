"""C06 - what the model says is what the printed text says."""
from __future__ import annotations

from typing import Any, Optional

import lark

from autobean_refactor.models import base

from vf.gen import ledger as L, ops as OPS, sweeps
from vf.obs import core as O
from vf.props import common
from vf.run import Job, Result

ID = 'C06'
RULE = ('A generated ledger (G1, attribution on) followed by a state-aware program of 1-8 (quick) / 1-20 (thorough) syntax-preserving '
        'edits: token values inside each class\'s lexical domain, optional / required / custom-optional slots with fitting donors, every '
        'value-level property, every MutableSequence operation on raw lists and on filtered / string / mapping views, deep-copy-and-'
        'insert, pop-and-reinsert, in-place arithmetic, claim/unclaim. After every step: print, parse as File, compare the semantic '
        'digest (class names, fields, token values; zero-width marks, block comments and trailing blanks of inline comments omitted) '
        'and the flat list of block-comment lines. Non-trivial = >= 1 structural operation whose slot has a present neighbour, or a '
        'multi-value list insertion.')
RULE = RULE + ' Round 8: what every filtered / string / mapping view of every model shows is compared with the same view of the re-parsed print (views read before the edits in half of the programs).'
ASSUMPTIONS = [
    'excluded by construction (the statement excludes them): raw_text, spacing and indent overrides, Transaction.raw_string0/1/2, '
    'ill-indented raw donors, and custom value lists in which a value beginning with a unary sign directly follows a number '
    '(documented: the caller resolves that ambiguity with wrap_with_parenthesis)',
    '== is not used: a parsed entry with a body carries a dedent mark that a constructed one lacks',
]
SHRINK_LISTS = ('ops', 'dirs')
REQUIRED_CLASSES = ('fam:list', 'fam:opt', 'fam:val', 'fam:view', 'fam:req', 'fam:tok', 'multi-insert')
FAMILIES = ['tok', 'opt', 'opt', 'req', 'val', 'val', 'list', 'list', 'view', 'claim', 'copyins', 'popins', 'arith']


def ambiguous_custom(root: Any) -> bool:
    for m in OPS.index_models(root).get('Custom', []):
        prev = None
        for v in m.raw_values:
            if type(prev).__name__ == 'NumberExpr':
                first = v.first_token
                if type(first).__name__ == 'UnaryOp':
                    return True
            prev = v
    return False


def unindented_comment_before_body_line(text: str) -> bool:
    """Layout the grammar accepts only directly after a header: an unindented comment line whose next non-comment line is an
    indented body line."""
    lines = text.split('\n')
    for i, line in enumerate(lines):
        if line.startswith(';'):
            for nxt in lines[i + 1:]:
                stripped = nxt.lstrip(' \t')
                if stripped.startswith(';'):
                    continue
                if nxt[:1] in (' ', '\t') and stripped.strip('\r') != '':
                    return True
                break
    return False


def tight_number_comma_number(root: Any) -> bool:
    """A bare number, a list comma and another number with nothing in between: the lexer reads '516,475' as one number with a thousands separator."""
    toks = [t for t in O.store_tokens(root.token_store) if t.raw_text != '']
    for a, b, c in zip(toks, toks[1:], toks[2:]):
        lead = len(c.raw_text) - len(c.raw_text.lstrip('0123456789'))   # a number, or a date: what matters is that >= 3 digits follow the comma
        if type(a).__name__ == 'Number' and type(b).__name__ == 'Comma' and type(c).__name__ in ('Number', 'Date') and '.' not in a.raw_text and lead >= 3:
            return True
    return False


def ignored_before_blanks(root: Any) -> bool:
    """An ignored line - or a block comment - whose token is directly followed by blanks: both terminals take the rest of the line, blanks included."""
    toks = [t for t in O.store_tokens(root.token_store) if t.raw_text != '']
    return any(type(a).__name__ in ('Ignored', 'BlockComment') and isinstance(b, O.Whitespace) for a, b in zip(toks, toks[1:]))


SELF_DELIMITING = ('Comma', 'LeftBrace', 'RightBrace', 'DblLeftBrace', 'DblRightBrace', 'LeftParen', 'RightParen', 'Tilde', 'Hash', 'At', 'AtAt', 'Asterisk',
                   'Newline', 'Whitespace', 'Indent', 'Eol', 'InlineComment', 'BlockComment')


def tight_pairs(root: Any) -> set:
    """Pairs of word-like tokens that touch (no blank, no punctuation between them): '10.00USD', '1"a"', 'Assets:Foo;c' ..."""
    toks = [t for t in O.store_tokens(root.token_store) if t.raw_text != '']
    return {(id(a), id(b)) for a, b in zip(toks, toks[1:]) if type(a).__name__ not in SELF_DELIMITING and type(b).__name__ not in SELF_DELIMITING}


def unindented_comment_ids(root: Any) -> set:
    """Block comments with a line that starts at column 0 (the open finding about an unindented comment inside a body needs one in the document
    BEFORE the edit - directly below a header, with or without body lines behind it)."""
    return {id(t) for t in O.store_tokens(root.token_store)
            if type(t).__name__ == 'BlockComment' and any(ln.startswith(';') for ln in t.raw_text.split('\n'))}


def shown(root: Any) -> list:
    """What the value-level and filtered views of every model SHOW (tags, links, currencies, custom values, postings, directives, meta): "what the
    model says" is also what these say - the raw tree can agree with the text while a view with a stale index table reports something else
    (round 8, seed C06-h)."""
    from vf.props import c10
    out = []
    order = O.Order(root.token_store)
    for m, _d in O.walk(root, order):
        if not isinstance(m, base.RawTreeModel):
            continue
        for name, _raw, _vis, _conv in c10.views_of(m):
            try:
                w = getattr(m, name)
                if name in ('meta', 'raw_meta'):
                    items = [(k, repr(O.digest(v)) if isinstance(v, base.RawModel) else repr(v)) for k, v in w.items()]
                else:
                    items = [repr(O.digest(x)) if isinstance(x, base.RawModel) else repr(x) for x in w]   # the semantic digest: comment ownership is exempt
            except ArithmeticError:
                items = ['<does not evaluate>']
            except Exception as e:  # noqa: BLE001
                items = [f'<raised {type(e).__name__}>']
            out.append((type(m).__name__, name, items))
    return out


def compare(root: Any, what: str, key: str) -> Optional[tuple[str, str]]:
    text = O.print_text(root)
    try:
        again = common.parse_file(text)
    except lark.exceptions.LarkError as e:
        if tight_number_comma_number(root):
            return ('number-merges-across-tight-comma', f'after {what} the document prints {text!r}: a bare number now stands directly before a comma that is '
                    f'directly followed by digits, which the lexer reads as one number with a thousands separator')
        if unindented_comment_before_body_line(text):
            return ('reparse-rejected:unindented-comment-before-body-line',
                    f'after {what} the document prints {text!r}: an unindented comment now sits between body lines, which parse() rejects')
        return (f'reparse-rejected:{key}', f'after {what} the document prints {text!r}, which parse() rejects: {str(e)[:200]}')
    except Exception as e:  # noqa: BLE001
        return (f'reparse-raised:{key}:{type(e).__name__}', f'after {what} the document prints {text!r}; parse() raised {e!r}')
    d1, d2 = O.digest(root), O.digest(again)
    if d1 != d2 and tight_number_comma_number(root):
        return ('number-merges-across-tight-comma', f'after {what} the document prints {text!r}: a bare number now stands directly before a comma that is directly '
                f'followed by digits, which the lexer reads as one number with a thousands separator ({O.digest_diff(d1, d2)})')
    if d1 != d2 and ignored_before_blanks(root):
        return ('ignored-line-absorbs-following-blanks', f'after {what} the document prints {text!r}: an ignored line now stands directly before blanks, which the '
                f'IGNORED terminal (rest of the line) absorbs on re-parsing ({O.digest_diff(d1, d2)})')
    if d1 != d2:
        return (f'digest:{key}', f'after {what} the model and its re-parsed print differ at {O.digest_diff(d1, d2)}; printed {text!r}')
    s1, s2 = shown(root), shown(again)
    if s1 != s2 and len(s1) == len(s2):
        x, y = next((x, y) for x, y in zip(s1, s2) if x != y)
        return (f'view-shows:{x[0]}.{x[1]}', f'after {what}: {x[0]}.{x[1]} of the edited model shows {x[2]!r}, the same model of the re-parsed print shows {y[2]!r}; printed {text!r}')
    c1, c2 = O.comment_lines(root), O.comment_lines(again)
    if c1 != c2:
        return (f'comments:{key}', f'after {what}: block comment lines {c1!r} re-parse as {c2!r}; printed {text!r}')
    # the values of the comments (who owns them aside): compared block by block when no two blocks were merged by the re-parse
    b1 = [t for t in O.store_tokens(root.token_store) if isinstance(t, O.BlockComment)]
    b2 = [t for t in O.store_tokens(again.token_store) if isinstance(t, O.BlockComment)]
    if len(b1) == len(b2):
        for x, y in zip(b1, b2):
            if x.value != y.value and ignored_before_blanks(root):
                return ('ignored-line-absorbs-following-blanks', f'after {what}: the block comment {x.raw_text!r} now stands directly before blanks on its line, '
                        f'which its terminal (rest of the line) absorbs on re-parsing: value {x.value!r} -> {y.value!r}')
            if x.value != y.value:
                return (f'comment-value:{key}', f'after {what}: a block comment with value {x.value!r} (printed {x.raw_text!r}) re-parses with value {y.value!r}')
    return None


def run_case(case: dict) -> Result:
    res = Result()
    root = common.parse_case(case)
    if root is None:
        return Result(discard=True)
    classes = set()
    nontrivial = False
    pinned = bool(case.get('pinned'))
    if case.get('prime'):
        from vf.props import c10
        c10.prime(root)   # the views exist before the edits: their index tables have to follow every splice
        classes.add('primed')
    for op in case['ops']:
        if not pinned and (tight_number_comma_number(root) or ignored_before_blanks(root)):
            classes.add('excluded-lexical-adjacency')   # open findings, pinned in corpus/C06
            res.excluded_known += 1
            break
        if not pinned and unindented_comment_before_body_line(O.print_text(root)):
            # open finding (known_findings.json): excluded from generation by construction so that the search continues behind it;
            # its committed trigger in corpus/C06 keeps reporting it
            classes.add('excluded-unindented-comment-in-body')
            res.excluded_known += 1
            break
        try:
            a = OPS.resolve(root, op)
        except OPS.NotApplicable:
            continue
        if pinned and a.family == 'claim' and str(a.prop).startswith('unclaim'):
            a.run()   # only in the committed trigger of the open finding about edits next to unowned comments
            continue
        if not a.syntax_ok:
            classes.add('skipped-not-syntax-preserving')
            continue
        if a.family not in ('claim', 'read') and not pinned and any(type(t).__name__ == 'BlockComment' and not t.claimed for t in O.store_tokens(root.token_store)):
            # an edit while some comment is unowned: what insertions and removals do around such a comment is outside the statement
            # (open findings); attribution calls themselves go on - a released comment is usually claimed again by the next one
            classes.add('excluded-unowned-comment-at-edit')
            break
        neighbours = False
        if a.structural and a.P is not None and isinstance(a.P, base.RawTreeModel):
            neighbours = len([c for c in O.raw_children(a.P) if not isinstance(c, O.ZERO_WIDTH)]) >= 2
        tight0 = tight_pairs(root)
        unind_ids0 = unindented_comment_ids(root)
        toks0 = [t for t in O.store_tokens(root.token_store) if t.raw_text != '']
        tight_comma0 = {id(x) for x, y in zip(toks0, toks0[1:]) if type(x).__name__ == 'Comma' and not isinstance(y, O.Whitespace)}
        try:
            a.run()
        except common.REFUSAL:
            classes.add('refused')
            break
        except Exception:  # noqa: BLE001 - internal crashes of an edit are C05's
            break
        classes.add('fam:' + a.family)
        if len(a.inserted) >= 2:
            classes.add('multi-insert')
            nontrivial = True
        if a.structural and neighbours and (a.inserted or a.removed):
            nontrivial = True
        if ambiguous_custom(root):
            classes.add('excluded-custom-sign-ambiguity')
            break
        toks1 = [t for t in O.store_tokens(root.token_store) if t.raw_text != '']
        old_tight_comma = any(type(b_).__name__ == 'Comma' and id(b_) in tight_comma0 and type(a_).__name__ == 'Number' and not isinstance(c_, O.Whitespace)
                              for a_, b_, c_ in zip(toks1, toks1[1:], toks1[2:]))
        if not pinned and ((tight_number_comma_number(root) and old_tight_comma) or ignored_before_blanks(root)):
            # (the tight comma must have been in the text before the edit: a comma the edit itself wrote without a blank is not the open finding)
            classes.add('excluded-lexical-adjacency')
            res.excluded_known += 1
            break
        bad = compare(root, str(op), a.key())
        if bad and bad[0] == 'number-merges-across-tight-comma' and not pinned:
            # the open finding is about a comma that was written tight in the text beforehand; a comma the edit itself wrote without a blank is not it
            if not old_tight_comma:
                bad = (f'digest:{a.key()}:edit-wrote-tight-comma', bad[1])
        if bad and bad[0] == 'reparse-rejected:unindented-comment-before-body-line' and not pinned and (unindented_comment_ids(root) - unind_ids0):
            # the open finding needs an unindented comment in the document beforehand; here the edit itself wrote an unindented comment line
            # (a comment that had none before, or a new comment) - not the known finding (round 8, seed C09-h)
            bad = (f'reparse-rejected:{a.key()}:edit-wrote-unindented-comment-line', bad[1])
        elif bad and bad[0] == 'reparse-rejected:unindented-comment-before-body-line' and not pinned:
            # the open finding reached from a layout the exclusion above does not see (an unindented comment below a header with no body line yet)
            classes.add('excluded-unindented-comment-in-body')
            res.excluded_known += 1
            break
        if bad and (tight_pairs(root) - tight0) and a.removed and not a.inserted:
            # open finding: in a compact layout ('10.00USD', '1"a"2') the removed child was the only thing between its neighbours
            texts = [(x.raw_text, y.raw_text) for x, y in zip(O.store_tokens(root.token_store), O.store_tokens(root.token_store)[1:]) if (id(x), id(y)) in tight_pairs(root) - tight0]
            bad = ('removal-glues-tight-neighbours', f'after {op} the tokens {texts[:2]} touch, which they did not before: {bad[1][:400]}')
        elif bad and pinned and (tight_pairs(root) - tight0) and a.inserted:
            # the same open finding from the other side: a child inserted / put in place of another next to a neighbour that was written without a blank
            texts = [(x.raw_text, y.raw_text) for x, y in zip(O.store_tokens(root.token_store), O.store_tokens(root.token_store)[1:]) if (id(x), id(y)) in tight_pairs(root) - tight0]
            bad = ('insertion-glues-tight-neighbours', f'after {op} the tokens {texts[:2]} touch: {bad[1][:400]}')
        if bad and pinned and any(type(t).__name__ == 'BlockComment' and not t.claimed for t in O.store_tokens(root.token_store)):
            bad = ('edit-next-to-unowned-comment', f'with an unowned comment in the document: {bad[1][:500]}')
        if bad:
            res.bad(*bad)
            break
    res.classes = sorted(classes)
    res.nontrivial = nontrivial
    return res


def _build(tier: str):
    cfg = L.Cfg(max_dirs=4 if tier == 'quick' else 8)
    n = 8 if tier == 'quick' else 20

    def build(rnd: Any) -> dict:
        from vf.props import c10
        return OPS.build_program(rnd, cfg, FAMILIES, n, common.parse_file, stick=0.5, prime=c10.prime)
    return build


def _build_pingpong_then_edit(tier: str):
    """Manual re-attribution walks (comments handed back and forth between neighbouring owners, every comment owned again at the end or the
    case stops), then list edits on the models involved: what the claims did to the zero-width placeholders shows in the next insertion."""
    from vf.props import c04
    inner = c04._build_pingpong(tier)

    def build(rnd: Any) -> dict:
        case = inner(rnd)
        case.pop('lf', None)
        case['claim'] = True
        g = L.G(rnd, L.Cfg())
        try:
            root = common.parse_file(L.text_of(case['dirs']))
            for op in case['ops']:
                try:
                    OPS.resolve(root, op).run()
                except Exception:  # noqa: BLE001
                    pass
            # empty (or shorten) a list next to the comments that were handed around, then add to it: the new item is placed relative
            # to the list's placeholder
            cands = [x for x in OPS.candidates(root, {'clist', 'fview'}) if x[2] in ('Transaction', 'Posting', 'File', 'Open', 'Close', 'Note') and len(getattr(x[0], x[1].name))]
            txn = [x for x in cands if x[2] in ('Transaction', 'Posting')]
            if txn and g.p(0.7):
                cands = txn
            if cands:
                m, p, cname, mi = cands[g.n(0, len(cands) - 1)]
                for shape in (g.pick(['pop', 'clear', 'pop_last', 'del']), 'append', g.pick(['append', 'insert'])):
                    op = OPS.gen_for(g, root, m, p, cname, mi, shape=shape)
                    if op is None:
                        continue
                    if shape in ('pop', 'del'):
                        op['i'] = 0
                    case['ops'].append(op)
                    try:
                        OPS.resolve(root, op).run()
                    except Exception:  # noqa: BLE001
                        break
        except Exception:  # noqa: BLE001
            pass
        return case
    return build


def jobs(tier: str) -> list[Job]:
    return [Job('programs', 'hyp', lambda: _build(tier), 2500 if tier == 'quick' else 100000),
            Job('claim-pingpong-then-edit', 'hyp', lambda: _build_pingpong_then_edit(tier), 2500 if tier == 'quick' else 60000),
            Job('list-sweep', 'enum', sweeps.list_sweep, exhaustive=True),
            Job('slot-sweep', 'enum', sweeps.slot_sweep, exhaustive=True),
            Job('insert-then-edit', 'enum', sweeps.insert_then_edit, exhaustive=True)]
