"""C16 - the editor writes exactly the edited files, exactly, and nothing else."""
from __future__ import annotations

import datetime
import glob
import os
import pathlib
import re
import shutil
import tempfile
from typing import Any, Optional

from autobean_refactor import editor as editor_lib, models, parser as parser_lib

from vf.gen import ledger as L
from vf.obs import core as O
from vf.props import common
from vf.run import Job, Result

ID = 'C16'
RULE = ('Include graphs of 1-6 files in a fresh temporary directory tree (sub-directories; include edges by literal relative path, '
        '".." path and glob *.bean / **/*.bean / ??.bean; cycles, diamonds, self-includes), file contents from G1 with LF, CRLF or mixed '
        'line ends (and carriage returns inside strings), root spelled bare / ./ / with a redundant sub/../ / absolute, as str or Path; a body '
        'that edits a subset of the files (token value, appended directive, removed inline comment, assignment of an equal value), removes entries, adds entries (existing '
        'or new directory) and optionally raises; edit_file on single files with the same dimensions. Oracle: bytes, mtime_ns and inode of every '
        'file recorded before; afterwards a changed file holds exactly the text the harness obtains by applying the same edit to its own exact '
        '(untranslated) reading of the file, unchanged files are not rewritten, removed entries are gone, added entries exist, the mapping keys '
        'are the normalised reachable set computed by the harness from the graph, every file is parsed exactly once, a file with exactly one effective edit differs from its old bytes only by the shape of that edit (pure insertion for an appended directive, date characters only for a re-valued date, within one line for a re-worded comment, exactly the blanks and the comment for a removed inline comment; independent of the model operations), and a raising body '
        'leaves every file untouched. Non-trivial = >= 3 files with a cycle, diamond or glob; or CR content with an edit; or a non-absolute '
        'root spelling; or a raising body after an edit. Editing-sessions job: one ledger of one-line transactions (3-30 lines with store blocks of 4 tokens, 50-1500 lines with the real block size; LF or CRLF), '
        '3-40 edits inside one edit_file block (tags appended, directives deleted at the beginning / end / anywhere, directives appended); oracle: the non-empty lines of the written file equal the list of lines '
        'the harness maintains with string operations only; non-trivial = >= 5 edits.')
RULE = RULE + ' Round 8: delrun edit (two neighbouring directives deleted through the filtered view, aimed at a run with a standalone comment inside); byte-shape rule: no new line appears and every standalone comment block of the old file is still there.'
ASSUMPTIONS = ['symlinks, absolute includes under a relative root, non-UTF-8 and unwritable files are not generated (the property does not speak about them)']
SHRINK_LISTS = ('edits', 'session')
REQUIRED_CLASSES = ('shape:uncomment', 'session:lf:4', 'session:lf:1000', 'session:crlf', 'shape:append', 'shape:tokval', 'shape:comment', 'spelling:symlink', 'workspace-dir-with-glob-chars', 'mode:recursive', 'mode:single', 'cr-content-edited', 'spelling:bare', 'spelling:abs', 'glob', 'cycle', 'raise-after-edit',
                    'removed-entry', 'added-entry')

OLD_NS = 1_000_000_000 * 10 ** 9 // 10 ** 9 * 10 ** 9  # a fixed old mtime (2001)


class CountingParser(parser_lib.Parser):
    def __init__(self) -> None:
        super().__init__()
        self.calls: list[str] = []

    def parse(self, text: str, target: Any, **kw: Any) -> Any:  # type: ignore[override]
        self.calls.append(text)
        return super().parse(text, target, **kw)


_CP: Optional[CountingParser] = None


def counting_parser() -> CountingParser:
    global _CP
    if _CP is None:
        _CP = CountingParser()
    _CP.calls = []
    return _CP


def glob_to_re(pat: str) -> re.Pattern:
    out = ''
    i = 0
    while i < len(pat):
        if pat.startswith('**/', i):
            out += '(?:[^/]+/)*'
            i += 3
        elif pat[i] == '*':
            out += '[^/]*'
            i += 1
        elif pat[i] == '?':
            out += '[^/]'
            i += 1
        else:
            out += re.escape(pat[i])
            i += 1
    return re.compile(out + r'\Z')


def include_matches(files: dict, cur: str, inc: str) -> list[str]:
    """Files (relative names) that an include directive in file `cur` refers to - computed textually, without the file system."""
    base = os.path.dirname(cur)
    if inc.startswith('{ABS}/'):
        base, inc = '', inc[len('{ABS}/'):]
    pat = os.path.normpath(os.path.join(base, inc)) if base or not inc.startswith('**') else inc
    if not any(c in inc for c in '*?'):
        return [pat] if pat in files else []
    pat = pat.replace('**' + os.sep, '**/')
    rx = glob_to_re(pat)
    return sorted(n for n in files if rx.match(n))


def expected_reachable(files: dict, root: str) -> Optional[set[str]]:
    """Relative names of the files reachable from root through includes; None when some include matches nothing."""
    seen, queue = set(), [os.path.normpath(root)]
    while queue:
        cur = queue.pop()
        if cur in seen:
            continue
        seen.add(cur)
        for inc in files[cur]['includes']:
            ms = include_matches(files, cur, inc)
            if not ms:
                return None
            queue.extend(ms)
    return seen


def apply_edit(file: Any, kind: str) -> bool:
    """Applies an edit to a File model; returns True when the text changes."""
    if kind == 'append':
        file.raw_directives.append(models.Open.from_value(datetime.date(2001, 2, 3), 'Assets:New', ()))
        return True
    if kind == 'tokval':
        for t in O.store_tokens(file.token_store):
            if type(t).__name__ == 'Date':
                old = t.raw_text
                t.value = datetime.date(1999, 9, 9)
                return t.raw_text != old
        file.raw_directives.append(models.Close.from_value(datetime.date(2001, 2, 3), 'Assets:New'))
        return True
    if kind == 'comment':
        # re-format an existing comment (its text changes, its line end must not)
        for t in O.store_tokens(file.token_store):
            if type(t).__name__ in ('InlineComment', 'BlockComment') and '\n' not in t.raw_text:
                old = t.raw_text
                t.value = 'edited'
                return t.raw_text != old
        return False
    if kind == 'uncomment':
        # remove the inline comment of the first directive that has one (through the value-level property)
        for d in file.raw_directives:
            if getattr(d, 'inline_comment', None) is not None:
                d.inline_comment = None
                return True
        return False
    if kind == 'delrun':
        # a run of two directives deleted through the filtered view: whatever else lies between them (a standalone comment) is not theirs
        n = len(file.directives)
        if n < 2:
            return False
        a = 1 if n >= 3 else 0
        # preferably a run with a standalone comment inside it
        seen = 0
        raw = list(file.raw_directives_with_comments)
        for i, x in enumerate(raw):
            if type(x).__name__ == 'BlockComment':
                if 0 < seen < n and any(type(y).__name__ != 'BlockComment' for y in raw[i + 1:]):
                    a = seen - 1
                    break
            else:
                seen += 1
        del file.directives[a:a + 2]
        return True
    if kind == 'same':
        for t in O.store_tokens(file.token_store):
            if type(t).__name__ == 'Account':
                t.value = t.value
                return False
        return False
    if kind == 'read':
        len(file.raw_directives)
        O.print_text(file)
        return False
    raise KeyError(kind)


def run_case(case: dict) -> Result:
    res = Result()
    tmp = tempfile.mkdtemp(prefix='vf-c16-')
    cwd = os.getcwd()
    try:
        if case.get('session'):
            return _run_session(case, res, tmp)
        return _run(case, res, tmp)
    finally:
        os.chdir(cwd)
        shutil.rmtree(tmp, ignore_errors=True)


def _run_session(case: dict, res: Result, tmp: str) -> Result:
    """A longer editing session on one ledger of one-line transactions, judged against a list of lines kept by the harness
    (no model operations on the expected side): tags appended to a transaction extend its line, a deleted directive removes its
    line, an appended directive adds a line. With small store blocks the session splits, merges and re-balances blocks."""
    from vf.gen import store as GS
    lf = int(case.get('lf', 1000))
    eol = case.get('eol', '\n')
    lines = ['2000-01-%02d * "n%d"' % (i % 28 + 1, i) for i in range(case['n'])]
    path = os.path.join(tmp, 'main.bean')
    with open(path, 'w', newline='') as f:
        f.write(''.join(x + eol for x in lines))
    old = GS.set_lf(lf)
    try:
        ed = editor_lib.Editor(parser=common.parser())
        with ed.edit_file(path) as file:
            for op in case['session']:
                n = len(lines)
                if op[0] == 'tags' and n:
                    i = op[1] % n
                    if ' close ' in lines[i]:
                        continue
                    new = ['t%d-%d' % (op[1], k) for k in range(op[2])]
                    file.raw_directives[i].tags.extend(new)
                    lines[i] += ''.join(' #' + t for t in new)
                elif op[0] == 'del' and n:
                    i = op[1] % n
                    del file.raw_directives[i]
                    del lines[i]
                elif op[0] == 'app':
                    file.raw_directives.append(models.Close.from_value(datetime.date(2001, 2, 3), 'Assets:New%d' % op[1]))
                    lines.append('2001-02-03 close Assets:New%d' % op[1])
    except Exception as e:  # noqa: BLE001
        res.bad(f'editor-raised:session:{type(e).__name__}', f'the editing session raised {e!r} (ops {case["session"][:20]}...)')
        return res
    finally:
        GS.restore_lf(old)
    got = open(path, 'rb').read().decode('utf-8')
    got_lines = [x for x in got.replace('\r\n', '\n').split('\n') if x]
    if got_lines != lines:
        k = next((i for i, (a, b) in enumerate(zip(got_lines, lines)) if a != b), min(len(got_lines), len(lines)))
        res.bad('session-content', f'after a session of {len(case["session"])} edits (blocks of {lf}) the file has {len(got_lines)} lines, the harness\'s line list '
                f'{len(lines)}; first difference at line {k}: file {got_lines[k:k + 2]!r}, expected {lines[k:k + 2]!r}')
    elif eol == '\r\n' and got.count('\r') < sum(1 for _ in lines) - sum(1 for op in case['session'] if op[0] == 'app') - 1:
        res.bad('content:carriage-returns-lost', f'a CRLF ledger edited in a session keeps {got.count(chr(13))} carriage returns for {len(lines)} lines')
    res.classes = ['session', 'session:lf:%d' % lf, 'session:crlf' if eol == '\r\n' else 'session:lf-ends']
    res.nontrivial = len(case['session']) >= 5
    return res


def _spell(root: str, spelling: str, tmp: str) -> Any:
    if spelling == 'bare':
        return root
    if spelling == 'dot':
        return './' + root
    if spelling == 'redundant':
        return os.path.join('zz', '..', root)
    if spelling == 'abs':
        return os.path.join(tmp, root)
    if spelling == 'dslash':
        return '/' + os.path.join(tmp, root)    # '//tmp/x' names the same file as '/tmp/x'
    if spelling == 'path':
        return pathlib.Path(root)
    if spelling == 'abspath':
        return pathlib.Path(tmp) / root
    raise KeyError(spelling)


def _run(case: dict, res: Result, tmp: str) -> Result:
    files = case['files']
    classes = set()
    if case.get('top'):
        # the workspace itself lives in a directory whose name contains glob metacharacters ('Finance [2020]' is an ordinary name):
        # only include *patterns* are globs, the location of the including file is not
        tmp = os.path.join(tmp, case['top'])
        os.makedirs(tmp, exist_ok=True)
        classes.add('workspace-dir-with-glob-chars')
    texts = {}
    for name, f in files.items():
        text = f['text'].replace('{ABS}', glob.escape(tmp))   # the include's filename is a pattern: its author escapes it
        try:
            common.parse_file(text)
        except Exception:  # noqa: BLE001
            return Result(discard=True)
        texts[name] = text
        p = os.path.join(tmp, name)
        os.makedirs(os.path.dirname(p), exist_ok=True)
        with open(p, 'wb') as fh:
            fh.write(text.encode('utf-8'))
        os.utime(p, ns=(OLD_NS, OLD_NS))
    os.makedirs(os.path.join(tmp, 'zz'), exist_ok=True)
    os.chdir(tmp)
    root = case['root']
    spelling = case.get('spelling', 'bare')
    link = os.path.join(os.path.dirname(root), 'zz-link.bean')
    if spelling == 'symlink':
        # the ledger is named through a symbolic link that stands next to it (so that relative includes resolve the same way)
        os.symlink(os.path.basename(root), os.path.join(tmp, link))
        arg: Any = link
    else:
        arg = _spell(root, spelling, tmp)
    absolute = spelling in ('abs', 'abspath', 'dslash')
    classes.add('spelling:' + ('abs' if absolute else spelling))
    before = {n: (open(os.path.join(tmp, n), 'rb').read(), os.stat(os.path.join(tmp, n)).st_mtime_ns, os.stat(os.path.join(tmp, n)).st_ino)
              for n in files}
    mode = case.get('mode', 'recursive')
    classes.add('mode:' + mode)
    cp = counting_parser()
    ed = editor_lib.Editor(cp)
    edits = case.get('edits', [])
    will_raise = bool(case.get('raise'))
    expected_text = dict(texts)   # what each file must contain afterwards (by relative name)
    changed: set[str] = set()
    removed: set[str] = set()
    added: dict[str, str] = {}
    any_cr = False

    def key_of(name: str) -> str:
        if spelling == 'symlink' and os.path.normpath(name) == os.path.normpath(root):
            return os.path.normpath(link)
        if spelling == 'dslash':
            return os.path.normpath('/' + os.path.join(tmp, name))
        return os.path.normpath(os.path.join(tmp, name)) if absolute else os.path.normpath(name)

    class Boom(Exception):
        pass

    raised: Optional[BaseException] = None
    reach_opt = {os.path.normpath(root)} if mode == 'single' else expected_reachable(files, root)
    if reach_opt is None:
        return Result(discard=True)
    reach: set[str] = reach_opt
    try:
        if mode == 'single':
            with ed.edit_file(arg) as f:
                for e in edits:
                    if e['kind'] in ('append', 'tokval', 'same', 'read', 'comment', 'uncomment', 'delrun'):
                        if apply_edit(f, e['kind']):
                            changed.add(os.path.normpath(root))
                if will_raise:
                    raise Boom()
        else:
            with ed.edit_file_recursive(arg) as fs:
                keys = set(fs.keys())
                exp_keys = {key_of(n) for n in reach}
                mixed = any(i.startswith('{ABS}/') for n in reach for i in files[n]['includes']) and (not absolute or spelling == 'dslash')
                if mixed:
                    # relative root and absolute includes: a file may be keyed by either spelling, but each file appears once
                    classes.add('mixed-spellings')
                    by_abs: dict[str, str] = {}
                    for k in keys:
                        a = os.path.realpath(k)
                        if a in by_abs:
                            res.bad('visited-twice', f'the same file is in the mapping under two spellings: {by_abs[a]!r} and {k!r} (root {arg!r}, keys {sorted(keys)})')
                            return res
                        by_abs[a] = k
                    if set(by_abs) != {os.path.realpath(n) for n in reach}:
                        res.bad('keys', f'mapping keys {sorted(keys)} but the graph reaches {sorted(reach)} (root {arg!r})')
                        return res
                    key_of = lambda name: by_abs.get(os.path.realpath(name), os.path.normpath(name))  # noqa: E731
                elif keys != exp_keys:
                    res.bad('keys', f'mapping keys {sorted(keys)} but the graph reaches {sorted(exp_keys)} (root {arg!r})')
                    return res
                for e in edits:
                    names = sorted(reach - removed)
                    if not names:
                        break
                    name = names[e.get('file', 0) % len(names)]
                    if e['kind'] in ('append', 'tokval', 'same', 'read', 'comment', 'uncomment', 'delrun'):
                        if apply_edit(fs[key_of(name)], e['kind']):
                            changed.add(name)
                    elif e['kind'] == 'remove' and spelling == 'symlink' and os.path.normpath(name) == os.path.normpath(root):
                        pass   # removing the entry named through the link deletes the link, not the ledger: not part of this oracle
                    elif e['kind'] == 'remove':
                        del fs[key_of(name)]
                        removed.add(name)
                        changed.discard(name)
                    elif e['kind'] == 'add':
                        new_name = e['name']
                        if new_name in files or new_name in added:
                            continue
                        m = common.parser().parse(e['text'], models.File)
                        fs[key_of(new_name)] = m
                        added[new_name] = e['text']
                if will_raise:
                    raise Boom()
    except Boom as e:
        raised = e
    except Exception as e:  # noqa: BLE001
        res.bad(f'editor-raised:{mode}:{type(e).__name__}', f'editor raised {e!r} for root {arg!r} (files {sorted(files)}, edits {edits})')
        return res
    # harness-side expected contents: the same edits on an exact reading of the bytes
    if raised is None:
        # replay the edits on the harness's own exact reading of each file
        models_h = {n: common.parse_file(texts[n]) for n in reach}
        effective: dict = {}
        removed_h: set[str] = set()
        for e in edits:
            if mode == 'single':
                name = os.path.normpath(root)
            else:
                names = sorted(reach - removed_h)
                if not names:
                    break
                name = names[e.get('file', 0) % len(names)]
            if e['kind'] in ('append', 'tokval', 'same', 'read', 'comment', 'uncomment', 'delrun'):
                if apply_edit(models_h[name], e['kind']):
                    effective.setdefault(name, []).append(e['kind'])
            elif e['kind'] == 'remove' and spelling == 'symlink' and os.path.normpath(name) == os.path.normpath(root):
                pass
            elif e['kind'] == 'remove':
                removed_h.add(name)
        for n in reach - removed:
            expected_text[n] = O.print_text(models_h[n])
    if will_raise:
        classes.add('raise')
        if changed:
            classes.add('raise-after-edit')
    # ---- compare the file system
    if spelling == 'symlink':
        classes.add('spelling:symlink')
        if not os.path.islink(os.path.join(tmp, link)):
            res.bad('symlink-replaced', f'the ledger was named through the symbolic link {link!r}; afterwards that path is no longer a link (the file behind it: '
                    f'{open(os.path.join(tmp, root), "rb").read()[:120]!r})')
    for name in files:
        p = os.path.join(tmp, name)
        b0, mt0, ino0 = before[name]
        if raised is None and name in removed:
            classes.add('removed-entry')
            if os.path.exists(p):
                res.bad('not-deleted', f'{name} was removed from the mapping but still exists')
            continue
        if not os.path.exists(p):
            res.bad('file-vanished', f'{name} no longer exists (raised={raised is not None})')
            continue
        b1 = open(p, 'rb').read()
        st = os.stat(p)
        must_change = raised is None and name in reach and expected_text[name] != texts[name]
        if must_change:
            if '\r' in texts[name]:
                any_cr = True
                classes.add('cr-content-edited')
            # independent of the library's own tokenisation: none of these edits touches a line end, so every carriage return must survive
            if b1.count(b'\r') < b0.count(b'\r') and 'delrun' not in effective.get(name, ()):   # (deleted lines take their line ends with them)
                res.bad('content:carriage-returns-lost', f'{name}: the file had {b0.count(13)} carriage returns before the edit and has {b1.count(13)} after; '
                        f'before {b0[:200]!r} after {b1[:200]!r}')
            elif b1 != expected_text[name].encode('utf-8'):
                lost_cr = texts[name].count('\r') - b1.count(b'\r')
                res.bad('content:cr-lost' if lost_cr > 0 and b1.replace(b'\r', b'') == expected_text[name].replace('\r', '').encode('utf-8') else 'content',
                        f'{name}: after the edit the file holds {b1[:300]!r}, expected {expected_text[name].encode("utf-8")[:300]!r}')
            elif len(effective.get(name, ())) == 1:
                # independent of the library's model operations (the expected text above comes from the same operations on the harness's
                # reading): the shape of the byte difference. An appended directive is a pure insertion; a re-valued date replaces date characters
                # (digits, '-', '/') by date characters; a re-worded one-line comment changes characters of one line only.
                kind = effective[name][0]
                w0, w1 = _diff_windows(b0, b1)
                classes.add('shape:' + kind)
                ok = (_delrun_shape(b0, b1) if kind == 'delrun' else
                      w0 == b'' if kind == 'append' else
                      (not w0.strip(b'0123456789-/') and not w1.strip(b'0123456789-/')) or w0 == b'' if kind == 'tokval' else
                      w1 == b'' and re.fullmatch(rb'[ \t]*;[^\r\n]*', w0) is not None if kind == 'uncomment' else
                      b'\n' not in w0 and b'\n' not in w1)
                if not ok:
                    res.bad(f'content-shape:{kind}', f'{name}: one {kind!r} edit, but the bytes differ by {w0[:200]!r} -> {w1[:200]!r} (outside the common prefix of '
                            f'{len(b0) - len(w0)} bytes shared with the file as it was): characters outside the edited fragment changed')
        else:
            if b1 != b0:
                res.bad('untouched-content' if raised is None else 'touched-after-raise', f'{name}: bytes changed although its model was not changed '
                        f'(raised={raised is not None}): {b0[:200]!r} -> {b1[:200]!r}')
            elif st.st_mtime_ns != mt0 or st.st_ino != ino0:
                res.bad('rewritten' if raised is None else 'touched-after-raise', f'{name}: file was rewritten although nothing changed (mtime/inode differ)')
    if raised is None:
        for new_name, text in added.items():
            classes.add('added-entry')
            p = os.path.join(tmp, new_name)
            if not os.path.exists(p):
                res.bad('not-created', f'added entry {new_name} was not created')
            elif open(p, 'rb').read() != text.encode('utf-8'):
                res.bad('added-content', f'added entry {new_name} holds {open(p, "rb").read()[:200]!r}, expected {text.encode()[:200]!r}')
    else:
        for new_name in added:
            if os.path.exists(os.path.join(tmp, new_name)):
                res.bad('touched-after-raise', f'{new_name} was created although the body raised')
    # every reachable file parsed exactly once
    if not res.violations and len(cp.calls) != len(reach):
        res.bad('parse-count', f'{len(cp.calls)} parse calls for {len(reach)} reachable files {sorted(reach)}')
    incs = sum(len(f['includes']) for f in files.values())
    if any(any(c in i for c in '*?') for f in files.values() for i in f['includes']):
        classes.add('glob')
    if case.get('cycle'):
        classes.add('cycle')
    res.classes = sorted(classes)
    res.nontrivial = ((len(files) >= 3 and (case.get('cycle') or 'glob' in classes)) or any_cr or not absolute and spelling != 'bare' or
                      'raise-after-edit' in classes or (spelling == 'bare' and bool(changed)))
    del incs
    return res


def _diff_windows(b0: bytes, b1: bytes) -> tuple:
    """What is left of both texts after taking away their longest common prefix and then the longest common suffix of the rest."""
    n = min(len(b0), len(b1))
    i = 0
    while i < n and b0[i] == b1[i]:
        i += 1
    r0, r1 = b0[i:], b1[i:]
    n = min(len(r0), len(r1))
    j = 0
    while j < n and r0[len(r0) - 1 - j] == r1[len(r1) - 1 - j]:
        j += 1
    return r0[:len(r0) - j], r1[:len(r1) - j]


def _delrun_shape(b0: bytes, b1: bytes) -> bool:
    """What deleting directives may do to the bytes: nothing new appears (every line of the new file is a line of the old one), and every
    standalone comment block of the old file - unindented comment lines with a blank line or a file boundary on both sides, which belong to no
    directive by the documented order - is still there."""
    import collections
    l0, l1 = b0.split(b'\n'), b1.split(b'\n')
    c0, c1 = collections.Counter(x.rstrip(b'\r') for x in l0), collections.Counter(x.rstrip(b'\r') for x in l1)
    if any(c1[k] > c0[k] for k in c1 if k.strip()):
        return False
    blank = lambda i: i < 0 or i >= len(l0) or not l0[i].strip()   # noqa: E731
    need: collections.Counter = collections.Counter()
    i = 0
    while i < len(l0):
        if l0[i].startswith(b';'):
            j = i
            while j < len(l0) and l0[j].startswith(b';'):
                j += 1
            if blank(i - 1) and blank(j):
                need.update(x.rstrip(b'\r') for x in l0[i:j])
            i = j
        else:
            i += 1
    return all(c1[k] >= v for k, v in need.items())


# --------------------------------------------------------------------------- generation

NAMES = ['main.bean', 'a.bean', 'ab.bean', 'sub/c.bean', 'sub/dd.bean', 'sub/deep/e.bean', 'other/f.bean']


def _build(tier: str):
    cfg = L.Cfg(max_dirs=3, comments=0.35, inline=0.4)

    def build(rnd: Any) -> dict:
        g = L.G(rnd, cfg)
        single = g.p(0.25)
        n = 1 if single else g.pick([1, 2, 3, 3, 4, 5, 6])
        names = ['main.bean'] + [x for x in NAMES[1:] if g.p(0.6)][:n - 1]
        if g.p(0.3):
            names[0] = 'sub/main.bean' if 'sub/main.bean' not in names else names[0]
        root = names[0]
        style = g.pick(['lf', 'lf', 'crlf', 'mixed'])
        files = {}
        cycle = False
        for name in names:
            c = L.Cfg(max_dirs=3, comments=0.35, inline=0.4, crlf={'lf': 0.0, 'crlf': 1.0, 'mixed': 0.4}[style])
            gg = L.G(rnd, c)
            incs = []
            lines_groups = []
            if not single:
                base = os.path.dirname(name)
                for _ in range(g.pick([0, 1, 1, 2, 3])):
                    others = [x for x in names]
                    tgt = g.pick(others)
                    if names.index(tgt) <= names.index(name):
                        cycle = True
                    x = g.n(0, 5)
                    if x <= 2:
                        inc = os.path.relpath(tgt, base or '.')
                    elif x == 3:
                        inc = g.pick(['*.bean', '??.bean', '**/*.bean'])
                    elif x == 4:
                        # an absolute include (legal): '{ABS}' stands for the workspace directory, substituted when the files are written
                        inc = '{ABS}/' + tgt if g.p(0.5) else os.path.relpath(tgt, base or '.')
                    else:
                        sub = os.path.dirname(tgt)
                        inc = os.path.relpath(os.path.join(sub, '*.bean'), base or '.')
                    incs.append(inc)
                    lines_groups.append([[['INCLUDE', 'include'], ['WHITESPACE', ' '], ['ESCAPED_STRING', '"' + inc + '"']]])
            for _ in range(g.n(0, 3)):
                lines_groups.append(gg.directive(gg.pick(['open', 'close', 'note', 'transaction', 'option', 'balance']))['lines'])
                t = gg.trivia()
                if t:
                    lines_groups.append(t)
            order = list(range(len(lines_groups)))
            chunks = [c2 for c2 in (gg.join_lines(lines_groups[i]) for i in order) if c2]
            text = L.text_of(L.merge_comments(chunks))
            if g.p(0.3) and (text == '' or text.endswith('\n')):
                # two directives with a standalone comment between them (the target of the 'delrun' edit)
                nl = '\r\n' if style == 'crlf' else '\n'
                text += nl.join(['2001-01-01 open Assets:Zz', '', '; standalone, between two directives', '', '2001-01-02 close Assets:Zz', ''])
            files[name] = {'text': text, 'includes': incs}
        # globs must match something: '??.bean' needs a two-letter file in that directory
        edits = []
        for _ in range(g.pick([0, 1, 1, 2, 3])):
            k = g.pick(['append', 'tokval', 'tokval', 'comment', 'comment', 'uncomment', 'delrun', 'delrun', 'same', 'read'] + ([] if single else ['remove', 'add']))
            e: dict = {'kind': k, 'file': g.n(0, 5)}
            if k == 'add':
                e['name'] = g.pick(['new.bean', 'sub/new.bean', 'brand/new/x.bean'])
                e['text'] = '2000-01-01 open Assets:Added\n' if g.p(0.5) else '2000-01-01 open Assets:Added\r\n; c\r\n'
            edits.append(e)
        return {'files': files, 'root': root, 'mode': 'single' if single else 'recursive', 'cycle': cycle,
                'spelling': g.pick(['bare', 'bare', 'dot', 'redundant', 'abs', 'path', 'abspath', 'dslash', 'symlink']), 'edits': edits, 'raise': g.p(0.2),
                'top': g.pick(['y[1]', 'Finance [2020]', 'a*b', 'q?', '[x]']) if g.p(0.3) else ''}
    return build


def _build_session(tier: str):
    def build(rnd: Any) -> dict:
        lf = 4 if rnd.random() < 0.8 else 1000
        n = rnd.randint(3, 30) if lf == 4 else rnd.randint(50, 400 if tier == 'quick' else 1500)
        ops = []
        for _ in range(rnd.randint(3, 40)):
            r = rnd.random()
            if r < 0.4:
                ops.append(['tags', rnd.randint(0, 2000), rnd.randint(1, 10 if lf == 4 else 300)])
            elif r < 0.85:
                # deletions concentrated at the beginning, the end or anywhere
                where = rnd.random()
                ops.append(['del', 0 if where < 0.4 else -1 if where < 0.5 else rnd.randint(0, 2000)])
            else:
                ops.append(['app', rnd.randint(0, 99)])
        return {'session': ops, 'n': n, 'lf': lf, 'eol': '\r\n' if rnd.random() < 0.25 else '\n'}
    return build


def jobs(tier: str) -> list[Job]:
    return [Job('graphs', 'hyp', lambda: _build(tier), 1500 if tier == 'quick' else 30000),
            Job('editing-sessions', 'hyp', lambda: _build_session(tier), 600 if tier == 'quick' else 20000)]
