"""C13 - number expressions evaluate and compose like ordinary arithmetic."""
from __future__ import annotations

import decimal
import re
from typing import Any, Optional

import lark

from autobean_refactor import models

from vf.gen import ledger as L, ops as OPS
from vf.obs import core as O
from vf.props import common
from vf.run import Job, Result

ID = 'C13'
RULE = ('Random expression trees (depth <= 4, unary signs, parentheses, random spacing) parsed as NumberExpr, free-standing or attached inside a '
        'generated ledger (posting / balance / price / meta numbers, cost components, custom values); in-place operators are applied to the object or, half of the time, as the '
        'statement `holder.attr op= x` / `wrapper[i] op= x` (read, operate, store back) through whatever holds the expression; the expression itself is one of the operands; then a chain of 1-5 applications of + - * / in plain, reflected and in-place form '
        'and of unary + / -, with operands drawn from int, Decimal, a free-standing expression or an expression attached in a document. Oracles: '
        '(1) value == an independent recursive-descent evaluation of the printed text (usual precedence, left associativity, unary binding tighter '
        'than *), same decimal context; (2) for r = a op b: r.value == a0 op b0 from the operand values read before the call, the evaluator on print(r) '
        'and parse(print(r)).value agree; (3) plain and reflected operators leave the snapshots of both operands and of every document containing one '
        'unchanged; (4) an in-place operator on an attached expression changes the document only inside that expression\'s span. Non-trivial = the '
        'right operand\'s top-level operator binds weaker than the applied one, or an operand is attached in a document, or the chain has length >= 2.')
RULE = RULE + ' Round 8: literals with more than 28 significant digits.'
ASSUMPTIONS = ['// is not in the property', 'whether an in-place operator consumes a free right operand is not asserted', 'cases whose evaluation divides by zero are discarded']
SHRINK_LISTS = ('chain', 'dirs')
REQUIRED_CLASSES = ('base:written-int', 'operand:fromint', 'reflected-with-expression', 'inplace-statement', 'operand:self', 'form:plain', 'form:reflected', 'form:inplace', 'form:unary', 'operand:int', 'operand:dec', 'operand:expr', 'operand:attached', 'base:attached',
                    'base:free', 'needs-parens')

TOKEN_RE = re.compile(r'\s*(?:(\d{1,3}(?:,\d{3})+(?:\.\d*)?|\d+(?:\.\d*)?)|(.))', re.S)


class EvalError(Exception):
    pass


def evaluate(text: str) -> decimal.Decimal:
    toks = []
    for num, other in TOKEN_RE.findall(text):
        if num:
            toks.append(('n', num))
        elif other.strip():
            toks.append(('o', other))
    pos = [0]

    def peek() -> Optional[tuple]:
        return toks[pos[0]] if pos[0] < len(toks) else None

    def take() -> tuple:
        t = toks[pos[0]]
        pos[0] += 1
        return t

    def atom() -> decimal.Decimal:
        t = peek()
        if t is None:
            raise EvalError('unexpected end')
        if t[0] == 'n':
            take()
            return decimal.Decimal(t[1].replace(',', ''))
        if t[1] == '(':
            take()
            v = add()
            if peek() != ('o', ')'):
                raise EvalError('expected )')
            take()
            return v
        if t[1] in '+-':
            take()
            v = atom()
            return v if t[1] == '+' else (v.copy_negate() if v else -v)   # a sign is exact; it is not an operation that rounds
        raise EvalError(f'unexpected {t}')

    def mul() -> decimal.Decimal:
        v = atom()
        while peek() in (('o', '*'), ('o', '/')):
            op = take()[1]
            w = atom()
            v = v * w if op == '*' else v / w
        return v

    def add() -> decimal.Decimal:
        v = mul()
        while peek() in (('o', '+'), ('o', '-')):
            op = take()[1]
            w = mul()
            v = v + w if op == '+' else v - w
        return v

    v = add()
    if pos[0] != len(toks):
        raise EvalError(f'trailing input at {pos[0]} in {text!r}')
    return v


def weaker_top(expr: Any) -> str:
    """'add' if the expression's top-level operator is + or -, 'mul' if * or /, '' otherwise."""
    a = expr.raw_number_add_expr
    if a.raw_ops:
        return 'add'
    if a.raw_operands[0].raw_ops:
        return 'mul'
    return ''


def apply(op: str, x: Any, y: Any) -> Any:
    if op == '+':
        return x + y
    if op == '-':
        return x - y
    if op == '*':
        return x * y
    return x / y


ARITH = (decimal.DecimalException, ZeroDivisionError)


def read_value(x: Any, res: Result) -> tuple:
    """('ok', value) / ('skip', None) when ordinary arithmetic on the printed text fails too (division by zero ...) / ('bad', None) when only
    the library fails: the value of an expression the reference can evaluate must be readable."""
    text = O.print_text(x)
    try:
        ref = evaluate(text)
    except ARITH:
        return 'skip', None
    try:
        return 'ok', x.value
    except ARITH as e:
        res.bad(f'value-raised:{type(e).__name__}', f'reading the value of {text!r} raised {e!r}; ordinary arithmetic gives {ref!r}')
        return 'bad', None


def run_case(case: dict) -> Result:
    res = Result()
    classes = set()
    root = None
    try:
        if case.get('dirs'):
            root = common.parse_case(case)
            if root is None:
                return Result(discard=True)
        exprs = OPS.index_models(root).get('NumberExpr', []) if root is not None else []
        base = case['base']
        if base.get('attached') and exprs:
            cur = exprs[base.get('mi', 0) % len(exprs)]
            classes.add('base:attached')
            attached = True
        else:
            cur = common.parser().parse(base['text'], models.NumberExpr)
            classes.add('base:free')
            attached = False
    except (lark.exceptions.LarkError, ValueError):
        return Result(discard=True)
    try:
        if base.get('written') is not None:
            # the documented way of writing a number: `expr.value = 8` (an int) or a Decimal; the chain then starts from a written number
            w = base['written']
            cur.value = int(w['v']) if w['vt'] == 'int' else decimal.Decimal(w['v'])
            classes.add('base:written-' + w['vt'])
        # (1) value of the parsed expression
        text = O.print_text(cur)
        try:
            ref = evaluate(text)
        except ARITH:
            return Result(discard=True)
        st, got = read_value(cur, res)
        if st != 'ok':
            res.classes = sorted(classes)
            return res if st == 'bad' else Result(discard=True)
        if got != ref:
            res.bad('value', f'{text!r}.value == {got!r}, ordinary arithmetic gives {ref!r}')
            res.classes = sorted(classes)
            return res
        applied = 0
        for step in case.get('chain', []):
            form, op = step['form'], step['op']
            o = step.get('operand', {})
            operand: Any = None
            operand_doc = None
            if form != 'unary':
                vt = o.get('vt')
                if vt == 'int':
                    operand = int(o['v'])
                elif vt == 'dec':
                    operand = decimal.Decimal(o['v'])
                elif vt == 'expr':
                    operand = common.parser().parse(o['v'], models.NumberExpr)
                elif vt == 'fromint':
                    operand = models.NumberExpr.from_value(int(o['v']))   # an expression built from an int
                elif vt == 'self':
                    if form == 'reflected':
                        continue
                    operand = cur      # x + x, x += x: the expression as its own operand
                elif vt == 'attached':
                    if not exprs:
                        continue
                    cands = [e for e in exprs if e is not cur]
                    if not cands:
                        continue
                    operand = cands[o.get('mi', 0) % len(cands)]
                    operand_doc = root
                else:
                    continue
                if form == 'reflected' and vt not in ('int', 'dec', 'expr', 'fromint', 'attached'):
                    continue
                if form == 'inplace' and vt == 'attached':
                    continue  # a refusal (C19)
                classes.add('operand:' + vt)
            st, a0 = read_value(cur, res)
            if st != 'ok':
                break
            if hasattr(operand, 'raw_number_add_expr'):
                st, b0 = read_value(operand, res)
                if st != 'ok':
                    break
            else:
                b0 = operand.value if hasattr(operand, 'value') else (decimal.Decimal(operand) if operand is not None else None)
            # the reference arithmetic is decimal whatever the library hands back (a number written as an int may read as an int)
            bad_type = next((x for x in (a0, b0) if x is not None and not isinstance(x, (int, decimal.Decimal))), None)
            if bad_type is not None:
                res.bad('value-not-decimal', f'an expression printing {O.print_text(cur)!r} / operand {o} reads {bad_type!r} ({type(bad_type).__name__}), not a decimal value')
                break
            a0 = decimal.Decimal(a0)
            b0 = decimal.Decimal(b0) if b0 is not None else None
            try:
                if form == 'unary':
                    exp = a0 if op == 'pos' else (a0.copy_negate() if a0 else -a0)   # a sign is exact, as in the text evaluator (a written -x reads back as -x: fix 56)
                elif form == 'reflected':
                    exp = apply(op, b0, a0)
                else:
                    exp = apply(op, a0, b0)
            except (decimal.DecimalException, ZeroDivisionError):
                continue
            if form != 'unary' and hasattr(operand, 'raw_number_add_expr'):
                wt = weaker_top(operand)
                if (op in '*/' and wt in ('add', 'mul') and (wt == 'add' or op == '/')) or (op == '-' and wt == 'add'):
                    classes.add('needs-parens')
                    res.nontrivial = True
            if attached or operand_doc is not None:
                res.nontrivial = True
            snap_cur = O.Snapshot(root) if attached and root is not None else O.Snapshot(cur)
            snap_operand = None
            if hasattr(operand, 'raw_number_add_expr'):
                snap_operand = O.Snapshot(operand_doc) if operand_doc is not None else O.Snapshot(operand)
            order0 = O.Order(root.token_store) if (attached and root is not None) else None
            span0 = (order0.ord(cur.first_token), order0.ord(cur.last_token)) if order0 is not None else None
            key = f'{form}:{op}'
            try:
                if form == 'unary':
                    r = +cur if op == 'pos' else -cur
                elif form == 'plain':
                    r = apply(op, cur, operand)
                elif form == 'reflected' and hasattr(operand, 'raw_number_add_expr'):
                    # the reflected method itself, given an expression as the left operand (what Python calls when the left operand's
                    # own method declines): operand <op> cur
                    classes.add('reflected-with-expression')
                    r = getattr(cur, {'+': '__radd__', '-': '__rsub__', '*': '__rmul__', '/': '__rtruediv__'}[op])(operand)
                elif form == 'reflected':
                    r = apply(op, operand, cur)
                elif step.get('stmt') and attached and OPS.holder_of(root, cur) is not None:
                    # the statement `holder.attr op= operand` / `wrapper[i] op= operand`: read, in-place operator, store back
                    classes.add('inplace-statement')
                    r = OPS.inplace_statement(OPS.holder_of(root, cur), op + '=', operand)
                else:
                    r = cur
                    if op == '+':
                        r += operand
                    elif op == '-':
                        r -= operand
                    elif op == '*':
                        r *= operand
                    else:
                        r /= operand
            except Exception as e:  # noqa: BLE001
                res.bad(f'raised:{key}:{type(e).__name__}', f'{O.print_text(cur)!r} {form} {op} {o} raised {e!r}')
                break
            classes.add('form:' + form)
            applied += 1
            what = f'({text!r}) {form} {op} {o.get("v", "")!r}'
            try:
                rtext = O.print_text(r)
                rev = evaluate(rtext)
            except ARITH:
                break
            st, rv = read_value(r, res)
            if st != 'ok':
                break
            try:
                rparsed = common.parser().parse(rtext, models.NumberExpr).value
            except ARITH as e:
                res.bad(f'value-raised:{type(e).__name__}', f'{what}: the result prints {rtext!r}; re-parsed, reading its value raised {e!r} (ordinary arithmetic: {rev!r})')
                break
            except Exception as e:  # noqa: BLE001
                res.bad(f'result-unusable:{key}:{type(e).__name__}', f'{what}: reading the result back raised {e!r}')
                break
            if rv != exp:
                res.bad(f'result-value:{key}', f'{what}: result value {rv!r}, arithmetic on the operand values gives {exp!r} (printed {rtext!r})')
                break
            if rev != exp or rparsed != exp:
                res.bad(f'result-text:{key}', f'{what}: result prints {rtext!r}, which evaluates to {rev!r} / re-parses to {rparsed!r}, expected {exp!r}')
                break
            if form in ('plain', 'reflected', 'unary'):
                d = snap_cur.diff(O.Snapshot(root) if attached and root is not None else O.Snapshot(cur))
                if d:
                    res.bad(f'left-operand-changed:{key}', f'{what}: the expression operand (or its document) changed: {d}')
                    break
                if snap_operand is not None:
                    d = snap_operand.diff(O.Snapshot(operand_doc) if operand_doc is not None else O.Snapshot(operand))
                    if d:
                        res.bad(f'right-operand-changed:{key}', f'{what}: the other operand (or its document) changed: {d}')
                        break
                if r is cur or (hasattr(operand, 'raw_number_add_expr') and r is operand):
                    res.bad(f'result-aliases-operand:{key}', f'{what}: a non-in-place operator returned one of its operands')
                    break
                cur, attached = r, False
            else:
                if r is not cur:
                    res.bad(f'inplace-new-object:{key}', f'{what}: the in-place operator returned a different object')
                    break
                if order0 is not None and span0 is not None and root is not None:
                    order1 = O.Order(root.token_store)
                    pre, suf = order0.tokens[:span0[0]], order0.tokens[span0[1] + 1:]
                    now = order1.tokens
                    if any(x is not y for x, y in zip(now[:len(pre)], pre)) or any(x is not y for x, y in zip(now[len(now) - len(suf):], suf)) or \
                            len(now) < len(pre) + len(suf):
                        res.bad(f'inplace-outside-changed:{key}', f'{what}: tokens outside the attached expression changed')
                        break
                    if order1.ord(cur.first_token) != len(pre) or order1.ord(cur.last_token) != len(now) - len(suf) - 1:
                        res.bad(f'inplace-span:{key}', f'{what}: the attached expression no longer spans exactly the tokens between its old neighbours')
                        break
                    bad = O.invariants(root)
                    if bad:
                        res.bad(f'inplace-invariant:{bad[0][0]}:{key}', f'{what}: {bad[:2]}')
                        break
            text = O.print_text(cur)
        if applied >= 2:
            res.nontrivial = True
    except (decimal.DecimalException, ZeroDivisionError):
        return Result(discard=True)
    res.classes = sorted(classes)
    return res


def _build(tier: str):
    cfg = L.Cfg(max_dirs=3, comments=0.1)

    def build(rnd: Any) -> dict:
        g = L.G(rnd, cfg)
        case: dict = {'dirs': [], 'base': {}, 'chain': []}
        attached = g.p(0.5)
        if attached:
            groups = []
            for _ in range(g.n(1, 3)):
                groups.append(g.directive(g.pick(['transaction', 'balance', 'price', 'custom', 'open']))['lines'])
            case['dirs'] = L.merge_comments([c for c in (g.join_lines(x) for x in groups) if c])
        case['base'] = {'attached': attached and g.p(0.8), 'mi': g.n(0, 20), 'text': L.text_of([g.number_expr(g.n(0, 4))])}
        if g.p(0.3):
            case['base']['written'] = {'vt': 'int', 'v': g.n(-20, 99)} if g.p(0.7) else {'vt': 'dec', 'v': str(decimal.Decimal(g.n(-9999, 99999)).scaleb(-g.n(0, 3)))}
        for _ in range(g.n(1, 5)):
            form = g.pick(['plain', 'plain', 'reflected', 'inplace', 'inplace', 'unary'])
            if form == 'unary':
                case['chain'].append({'form': form, 'op': g.pick(['pos', 'neg'])})
                continue
            op = g.pick('+-*/')
            vt = g.pick(['int', 'dec', 'expr', 'expr', 'attached', 'self'] if g.p(0.3) else ['int', 'dec', 'expr', 'expr', 'attached'])
            if form == 'reflected':
                vt = g.pick(['int', 'dec', 'int', 'dec', 'expr', 'attached'])
            if vt in ('int', 'expr') and g.p(0.2):
                o = {'vt': 'fromint', 'v': g.n(-20, 99)}
            elif vt == 'int':
                o = {'vt': 'int', 'v': g.n(-20, 99)}
            elif vt == 'dec':
                if g.p(0.25):
                    # Decimals whose str() is in exponent form: positive exponents, tiny values, normalised round numbers
                    d = decimal.Decimal(g.pick(['1E+2', '2.5E+3', '-4E+1', '1E-7', '0.00000025', '7E+0', '1.20E+4', '-3E-9']))
                else:
                    d = decimal.Decimal(g.n(-9999, 99999)).scaleb(-g.n(0, 3))
                o = {'vt': 'dec', 'v': str(d)}
            elif vt == 'expr':
                o = {'vt': 'expr', 'v': L.text_of([g.number_expr(g.n(0, 3))])}
            elif vt == 'self':
                o = {'vt': 'self'}
            else:
                o = {'vt': 'attached', 'mi': g.n(0, 20)}
            case['chain'].append({'form': form, 'op': op, 'operand': o, 'stmt': form == 'inplace' and g.p(0.5)})
        return case
    return build


def jobs(tier: str) -> list[Job]:
    return [Job('chains', 'hyp', lambda: _build(tier), 4000 if tier == 'quick' else 150000)]
