"""C19 - a refused operation leaves the document exactly as it was."""
from __future__ import annotations

import copy
import itertools
import decimal
from typing import Any, Callable, Optional

from autobean_refactor import models
from autobean_refactor.models import base
from autobean_refactor.models.block_comment import BlockComment

from vf.gen import donors as D, ledger as L, ops as OPS, schema as S
from vf.obs import core as O
from vf.props import common
from vf.run import Job, Result

ID = 'C19'
RULE = ('Two generated ledgers, an optional valid prefix of 0-3 edits on the first, then one invalid call from a catalogue: '
        '(a) an attached node (of the same or the other document) as the value of every node-accepting mutator - optional/required '
        'slot, list append/insert/set/slice/extended-slice/extend at every batch position 0..2, filtered views, raw meta mapping, '
        'value-level meta assignment, from_children; (b) out-of-range indexes and missing keys; (c) size-mismatched extended-slice '
        'and view slice assignments; (d) claim/unclaim of comments that are not there mixed with ones that are, claiming an already '
        'claimed comment; (e) illegal cost combinations; (f) raw_text outside the language of DATE/NUMBER/BOOL/BLOCK_COMMENT; '
        '(g) in-place arithmetic with an attached operand (simple and compound); (h) spacing tokens of another document; '
        '(i) reverse() on a node list. Oracle: if the call raises, the snapshot (text, token identities, tree structure, claimed '
        'flags, token values) of both documents equals the snapshot before; for (a) the call must raise, and if it does not, the '
        'structural invariants of both documents decide. Non-trivial = the invalid argument is not the first of its batch, or the '
        'target slot/list is non-empty, or the call site has present siblings.')
ASSUMPTIONS = ['any exception type counts as a refusal', 'a node that is the whole of its own store is not "living elsewhere"']
SHRINK_LISTS = ('ops', 'dirs', 'dirs2')
REQUIRED_CLASSES = ('released-comment', 'a:attached', 'b:index-key', 'c:size-mismatch', 'd:comments', 'f:rawtext', 'g:arith', 'h:foreign-spacing', 'i:reverse',
                    'raised', 'nonfirst-in-batch')


def _find_attached(doc: Any, kinds: list, sel: int, exclude: Any = None) -> Any:
    cands = []
    order = O.Order(doc.token_store)
    for m, d in O.walk(doc, order):
        if d == 0 or isinstance(m, (O.Repeated,)) or isinstance(m, O.ZERO_WIDTH):
            continue
        if m is exclude:
            continue
        if OPS._compatible(m, kinds) or ('add_expr' in kinds and type(m).__name__ == 'NumberAddExpr'):
            # must not be the whole of its store
            try:
                if m.first_token is doc.token_store.get_first() and m.last_token is doc.token_store.get_last():
                    continue
            except Exception:  # noqa: BLE001
                continue
            cands.append(m)
    if not cands:
        raise OPS.NotApplicable('no attached node of that kind')
    return cands[sel % len(cands)]


def _unevaluable(x: Any) -> bool:
    try:
        x.value
    except ArithmeticError:
        return True
    return False


class Bad:
    def __init__(self) -> None:
        self.call: Callable[[], Any] = lambda: None
        self.must_raise = False
        self.cls = ''
        self.nontrivial = False
        self.key = ''
        self.what = ''
        self.setup: Optional[Callable[[], Any]] = None      # a legal call made first (e.g. one that consumes a free node)
        self.followup: Optional[Callable[[], Any]] = None   # a legal call made after the refusal (e.g. the retry without the offending value)
        self.followup_what = ''
        self.followup_check: Optional[Callable[[Any], Optional[str]]] = None   # judges what the follow-up returned
        self.after_refusal: Optional[Callable[[], Optional[str]]] = None        # judges free objects involved in the refused call


def resolve_bad(root: Any, other: Any, op: dict) -> Bad:
    b = Bad()
    k = op['k']
    idx = OPS.index_models(root)
    if k == 'attached':
        dst = op['dst']
        P = OPS.find_model(root, dst['cls'], dst['mi'], idx)
        p = S.prop(P, dst['prop'])
        srcdoc = other if op.get('src_other') else root
        cur = getattr(P, p.name) if p.kind in ('opt', 'req', 'copt', 'uopt') else None
        node = _find_attached(srcdoc, p.donors or [], op.get('sel', 0), exclude=cur)
        fresh = [OPS._donor(d) for d in op.get('fresh', [])]
        pos = min(op.get('pos', 0), len(fresh))
        batch = fresh[:pos] + [node] + fresh[pos:]
        b.cls, b.must_raise = 'a:attached', True
        b.key = f'attached:{p.kind}:{dst.get("op", "set")}'
        b.what = f'{type(P).__name__}.{p.name} {dst.get("op", "=")} with an attached {type(node).__name__} at batch position {pos} of {len(batch)}'
        b.nontrivial = pos > 0 or cur is not None
        if p.kind in ('opt', 'req', 'copt', 'uopt'):
            b.call = lambda: setattr(P, p.name, node)
        elif p.kind in ('list', 'clist', 'fview', 'rawmeta', 'meta'):
            w = getattr(P, p.name)
            n = len(w)
            b.nontrivial = b.nontrivial or n > 0
            name = dst.get('op', 'append')
            i = dst.get('i', 0)
            if name == 'append':
                b.call = lambda: w.append(node)
            elif name == 'insert':
                b.call = lambda: w.insert(i, node)
            elif name == 'set':
                if n == 0:
                    raise OPS.NotApplicable('empty')
                b.call = lambda: w.__setitem__(i % n, node)
            elif name == 'setslice':
                j = dst.get('j')
                b.call = lambda: w.__setitem__(slice(i, j), batch)
            elif name == 'setext':
                r = range(n)[::2]
                if len(r) == 0:
                    raise OPS.NotApplicable('empty')
                bb = (batch * len(r))[:len(r)]
                if node not in bb:
                    bb[-1] = node
                extra = [OPS._donor(d) for d in op.get('fresh2', [])]
                bb = [x if x is node else (extra.pop() if extra else None) for x in bb]
                if any(x is None for x in bb):
                    raise OPS.NotApplicable('not enough donors')
                b.call = lambda: w.__setitem__(slice(None, None, 2), bb)
            elif name == 'extend':
                b.call = lambda: w.extend(batch)
            elif name == 'iadd':
                def call() -> None:
                    ww = w
                    ww += batch
                b.call = call
            elif name == 'mapset':
                if not hasattr(node, 'key'):
                    raise OPS.NotApplicable('not a meta item')
                b.call = lambda: w.__setitem__(op.get('key', 'zz'), node)
            else:
                raise OPS.NotApplicable(name)
            if fresh and pos > 0 and name in ('extend', 'iadd', 'setslice') and p.kind in ('list', 'clist', 'fview', 'rawmeta'):
                # what a caller does next: the same call without the offending value - the free node in front of it must still be usable
                b.followup = lambda: w.append(fresh[0])
                b.followup_what = f'{type(P).__name__}.{p.name}.append(the free {type(fresh[0]).__name__} that preceded the refused value)'
        else:
            raise OPS.NotApplicable(p.kind)
        return b
    if k == 'dupbatch':
        # the same free node twice in one batch: its second occurrence already lives elsewhere when it is inserted
        dst = op['dst']
        P = OPS.find_model(root, dst['cls'], dst['mi'], idx)
        p = S.prop(P, dst['prop'])
        x = OPS._donor(op['fresh'][0])
        w = getattr(P, p.name)
        n = len(w)
        name = dst.get('op', 'extend')
        b.cls, b.must_raise, b.key = 'a:attached', True, f'duplicate-in-batch:{p.kind}:{name}'
        b.what = f'{type(P).__name__}.{p.name} {name} with the same free {type(x).__name__} twice'
        b.nontrivial = True
        if name == 'extend':
            b.call = lambda: w.extend([x, x])
        elif name == 'iadd':
            def call2() -> None:
                ww = w
                ww += [x, x]
            b.call = call2
        elif name == 'setslice':
            i = dst.get('i', 0)
            b.call = lambda: w.__setitem__(slice(i, dst.get('j')), [x, x])
        elif name == 'setext':
            if n < 3:
                raise OPS.NotApplicable('too short')
            b.call = lambda: w.__setitem__(slice(0, 3, 2), [x, x])
        else:
            raise OPS.NotApplicable(name)
        return b
    if k == 'consumed':
        # a free node is legally moved into one model; using the same object again as a value elsewhere must be refused
        dst = op['dst']
        ms = idx.get(dst['cls'], [])
        if len(ms) < 2:
            raise OPS.NotApplicable('needs two models of the class')
        P1 = ms[dst['mi'] % len(ms)]
        P2 = ms[(dst['mi'] + 1 + op.get('sel', 0) % (len(ms) - 1)) % len(ms)]
        p = S.prop(P1, dst['prop'])
        x = OPS._donor(op['fresh'][0])
        if p.kind in ('opt', 'req', 'copt', 'uopt'):
            b.setup = lambda: setattr(P1, p.name, x)
            b.call = lambda: setattr(P2, p.name, x)
        else:
            b.setup = lambda: getattr(P1, p.name).append(x)
            b.call = lambda: getattr(P2, p.name).append(x)
        b.cls, b.must_raise, b.key = 'a:attached', True, f'consumed-node-reused:{p.kind}'
        b.what = f'{type(P2).__name__}.{p.name} given the {type(x).__name__} that was just moved into another {type(P1).__name__}'
        b.nontrivial = True
        return b
    if k == 'released-comment':
        # a comment released by its owner (documented unclaim_*) still lives in the document; handing it to another model's comment slot, or into
        # a list, must be refused - and the refusal must not touch the comment's ownership flag either
        owners = [m for ms in idx.values() for m in ms if hasattr(m, 'unclaim_leading_comment')]
        side = op['side']
        have = [m for m in owners if vars(m).get('_' + side + '_comment') is not None]
        if not have:
            raise OPS.NotApplicable('no owned comment')
        src = have[op.get('sel', 0) % len(have)]
        takers = [m for m in owners if m is not src and vars(m).get('_' + op['into'] + '_comment') is None and
                  bool(getattr(m, 'indent', '')) == bool(getattr(src, 'indent', ''))]
        if not takers:
            raise OPS.NotApplicable('no model with an empty comment slot')
        dst = takers[op.get('sel2', 0) % len(takers)]
        box: dict = {}

        def setup() -> None:
            box['c'] = getattr(src, 'unclaim_' + side + '_comment')()
        b.setup = setup
        b.call = lambda: setattr(dst, 'raw_' + op['into'] + '_comment', box['c'])
        b.cls, b.must_raise, b.key = 'a:attached', True, f'released-comment-given-to-another-owner:{op["into"]}'
        b.what = (f'{type(dst).__name__}.raw_{op["into"]}_comment given the comment that {type(src).__name__}.unclaim_{side}_comment() released '
                  f'(it still lives in the document)')
        b.nontrivial = True
        classes_extra = 'released-comment'
        b.extra_class = classes_extra
        return b
    if k == 'wholefield':
        # model.raw_xs = other_model.raw_xs : the list still lives in the other model
        dst = op['dst']
        P = OPS.find_model(root, dst['cls'], dst['mi'], idx)
        p = S.prop(P, dst['prop'])
        srcdoc = other if op.get('src_other') else root
        cands = [m for m in OPS.index_models(srcdoc).get(dst['cls'], []) if m is not P]
        if not cands:
            raise OPS.NotApplicable('no second model of the class')
        Q = cands[op.get('sel', 0) % len(cands)]
        w = getattr(Q, p.name)
        st = w.repeated.token_store
        if w.repeated.first_token is st.get_first() and w.repeated.last_token is st.get_last():
            raise OPS.NotApplicable('the list spans its whole store (an empty file): a free node by the library\'s definition, not an attached one')
        b.cls, b.must_raise, b.key = 'a:attached', True, f'attached:whole-field:{p.kind}'
        b.what = f'{type(P).__name__}.{p.name} = the {p.name} of another {type(Q).__name__} (still attached there)'
        b.nontrivial = len(w) > 0 or len(getattr(P, p.name)) > 0
        b.call = lambda: setattr(P, p.name, w)
        return b
    if k == 'cyclic':
        # a free tree given to a slot of one of its own descendants: can only be refused, and the tree stays what it was
        which = op.get('which', 0) % 3
        if which == 0:
            free = common.parser().parse(op.get('text', '-(-1)'), models.NumberUnaryExpr)
            inner = free.raw_operand.raw_inner_expr.raw_operands[0].raw_operands[0]
            b.call = lambda: setattr(inner, 'raw_operand', free)
            b.what = 'NumberUnaryExpr.raw_operand of a nested unary = the enclosing free expression'
        elif which == 1:
            free = common.parser().parse(op.get('text', '-1'), models.NumberUnaryExpr)
            b.call = lambda: setattr(free, 'raw_operand', free)
            b.what = 'u.raw_operand = u'
        else:
            mul = common.parser().parse('(1 + 2) * 3', models.NumberExpr).raw_number_add_expr.raw_operands[0]
            free = models.NumberAddExpr.from_children((copy.deepcopy(mul),), ())
            paren = free.raw_operands[0].raw_operands[0]
            b.call = lambda: setattr(paren, 'raw_inner_expr', free)
            b.what = 'NumberParenExpr.raw_inner_expr = the enclosing free expression'
        text0 = ''.join(t.raw_text for t in free.token_store)
        b.cls, b.must_raise, b.key, b.nontrivial = 'a:attached', True, f'cyclic-insertion:{which}', True
        b.after_refusal = lambda: None if ''.join(t.raw_text for t in free.token_store) == text0 else (
            f'the free expression held {text0!r} before the refused call and holds ' + repr(''.join(t.raw_text for t in free.token_store)) + ' after it')
        return b
    if k == 'pop-unevaluable':
        # values.pop(i) / meta.pop(key) of a value whose evaluation raises (1 / 0): the exception is legitimate, a changed document is not
        P = OPS.find_model(root, op['cls'], op['mi'], idx)
        b.cls, b.key, b.nontrivial = 'b:index-key', f'pop-unevaluable:{op["via"]}', True
        if op['via'] == 'values':
            raws = list(P.raw_values)
            bad_i = [i for i, x in enumerate(raws) if type(x).__name__ == 'NumberExpr' and _unevaluable(x)]
            if not bad_i:
                raise OPS.NotApplicable('no unevaluable value')
            i = bad_i[op.get('sel', 0) % len(bad_i)]
            b.what = f'Custom.values.pop({i}) of {O.print_text(raws[i])!r}'
            b.call = lambda: P.values.pop(i)
        else:
            keys = [x.key for x in P.raw_meta if type(x.raw_value).__name__ == 'NumberExpr' and _unevaluable(x.raw_value)]
            if not keys:
                raise OPS.NotApplicable('no unevaluable value')
            key = keys[op.get('sel', 0) % len(keys)]
            b.what = f'{type(P).__name__}.meta.pop({key!r})'
            b.call = lambda: P.meta.pop(key)
        return b
    if k == 'values-attached':
        P = OPS.find_model(root, 'Custom', op['mi'], idx)
        node = _find_attached(other if op.get('src_other') else root, ['ACCOUNT', 'amount', 'ESCAPED_STRING', 'DATE'], op.get('sel', 0))
        w = P.values
        n = len(w)
        name = op.get('op', 'setslice')
        b.cls, b.must_raise, b.key = 'a:attached', True, f'attached:values-view:{name}:{"token" if isinstance(node, base.RawTokenModel) else "tree"}'
        b.what = f'Custom.values {name} with ["yearly", attached {type(node).__name__}]'
        b.nontrivial = n > 0
        if name == 'setslice':
            if n < 2:
                raise OPS.NotApplicable('needs two values')
            b.call = lambda: w.__setitem__(slice(0, 2), ['yearly', node])
        elif name == 'extend':
            b.call = lambda: w.extend(['yearly', node])
        else:
            if n < 3:
                raise OPS.NotApplicable('needs three values')
            b.call = lambda: w.__setitem__(slice(0, 3, 2), ['yearly', node])
        return b
    if k == 'meta-update':
        # mapping.update with an attached node as a later value: refused, and the keys in front of it are not applied
        P = OPS.find_model(root, op['cls'], op['mi'], idx)
        node = _find_attached(other if op.get('src_other') else root, ['ACCOUNT', 'CURRENCY', 'TAG', 'amount'], op.get('sel', 0))
        b.cls, b.must_raise, b.key = 'a:attached', True, 'attached:meta-update'
        b.what = f'{type(P).__name__}.meta.update({{"zn1": 5, "zn2": attached {type(node).__name__}, "zn3": "z"}})'
        b.nontrivial = True
        b.call = lambda: P.meta.update({'zn1': decimal.Decimal(5), 'zn2': node, 'zn3': 'z'})
        return b
    if k == 'metaval':
        # value-level meta assignment with an attached raw value
        P = OPS.find_model(root, op['cls'], op['mi'], idx)
        node = _find_attached(other if op.get('src_other') else root, ['ACCOUNT', 'CURRENCY', 'TAG', 'amount'], op.get('sel', 0))
        b.cls, b.must_raise, b.key = 'a:attached', True, 'attached:meta-value'
        b.what = f'{type(P).__name__}.meta[{op["key"]!r}] = attached {type(node).__name__}'
        b.nontrivial = len(P.meta) > 0
        b.call = lambda: P.meta.__setitem__(op['key'], node)
        return b
    if k == 'custom-ctor':
        # a constructor given a node that still lives in a document: refused, and that document is not touched on the way
        import datetime
        node = _find_attached(other if op.get('src_other') else root, ['number_expr', 'amount'], op.get('sel', 0))
        first = models.NumberExpr.from_value(decimal.Decimal(1))
        b.cls, b.must_raise, b.key = 'a:attached', True, f'attached:custom-{op.get("how", "from_value")}'
        b.what = f'Custom.{op.get("how", "from_value")}(values=[1, attached {type(node).__name__} {O.print_text(node)!r}])'
        b.nontrivial = True
        if op.get('how') == 'from_children':
            b.call = lambda: models.Custom.from_children(models.Date.from_value(datetime.date(2000, 1, 1)), models.EscapedString.from_value('t'), [first, node])
        else:
            b.call = lambda: models.Custom.from_value(datetime.date(2000, 1, 1), 't', [decimal.Decimal(1), node])
        return b
    if k == 'ctor-later-attached':
        # a constructor refused because of a later argument must leave the free arguments in front of it usable
        cur = _find_attached(other if op.get('src_other') else root, ['CURRENCY'], op.get('sel', 0))
        num = OPS._donor({'k': 'number_expr', 't': op.get('num', '7')})
        text0 = O.print_text(num)
        b.cls, b.must_raise, b.key = 'a:attached', True, 'attached:constructor-later-argument'
        b.what = f'Amount.from_children(free NumberExpr {text0!r}, attached Currency)'
        b.nontrivial = True
        b.call = lambda: models.Amount.from_children(num, cur)
        b.followup = lambda: models.Amount.from_children(num, models.Currency.from_value('USD'))
        b.followup_what = 'Amount.from_children(the same free NumberExpr, a fresh Currency)'
        b.followup_check = lambda r: None if O.print_text(r) == text0 + ' USD' and not O.invariants(r, whole_store=True) else f'built {O.print_text(r)!r}, expected {text0 + " USD"!r}'
        return b
    if k == 'ctor-duplicate':
        import datetime
        usd = models.Currency.from_value('USD')
        s_ = models.EscapedString.from_value('x')
        which = op.get('which', 0) % 3
        b.cls, b.must_raise, b.key = 'a:attached', True, f'duplicate-in-constructor:{which}'
        b.nontrivial = True
        d = models.Date.from_value(datetime.date(2000, 1, 1))
        if which == 0:
            b.what = 'Open.from_children(date, account, currencies=[usd, usd]) with one Currency object twice'
            b.call = lambda: models.Open.from_children(d, models.Account.from_value('Assets:Foo'), [usd, usd])
        elif which == 1:
            b.what = 'Transaction.from_children(date, flag, payee=s, narration=s, ...) with one string object twice'
            b.call = lambda: models.Transaction.from_children(d, models.TransactionFlag.from_value('*'), s_, s_, (), ())
        else:
            c = BlockComment.from_value('note')
            b.what = 'File.from_children([c, c]) with one comment object twice'
            b.call = lambda: models.File.from_children([c, c])
        return b
    if k == 'from_children':
        node = _find_attached(root, ['number_expr'], op.get('sel', 0))
        cur = OPS._donor({'k': 'CURRENCY', 't': 'USD'})
        b.cls, b.must_raise, b.key = 'a:attached', True, 'attached:from_children'
        b.what = 'Amount.from_children(attached NumberExpr, fresh Currency)'
        b.nontrivial = True
        b.call = lambda: models.Amount.from_children(node, cur)
        return b
    if k == 'op':
        # an ordinary descriptor whose reference semantics say "raises"
        a = OPS.resolve(root, op['op'], idx)
        if a.expect_exc is None and not a.refusal_documented and not op.get('may_raise'):
            raise OPS.NotApplicable('valid op')
        b.call = a.run
        if a.op.get('op') == 'reverse':
            b.cls = 'i:reverse'
        elif a.refusal_documented or (a.expect_exc is ValueError):
            b.cls = 'c:size-mismatch'
        elif op.get('may_raise'):
            b.cls = 'e:cost'
        else:
            b.cls = 'b:index-key'
        b.key = f'{b.cls}:{a.family}:{a.shape}'
        b.what = str(op['op'])
        b.nontrivial = len(a.ref.get('cur', [])) > 0 or bool(a.ref.get('rawcur'))
        return b
    if k == 'comments':
        P = OPS.find_model(root, op['cls'], op['mi'], idx)
        b.cls = 'd:comments'
        name = op['op']
        b.key = 'comments:' + name
        if name in ('claim_interleaving_comments', 'unclaim_interleaving_comments'):
            w = getattr(P, op['prop'])
            present = [x for x in w if isinstance(x, BlockComment)]
            stranger = BlockComment.from_value('not there')
            if op.get('stranger') == 'other':
                others = [t for t in O.store_tokens(other.token_store) if isinstance(t, BlockComment)]
                if others:
                    stranger = others[op.get('sel', 0) % len(others)]
            arg = present[:op.get('npresent', 1)] + [stranger]
            if op.get('released') and name == 'claim_interleaving_comments' and present:
                # the list's own comments released first (a valid call, part of the history): they are claimable again, the stranger is not -
                # a selection that is refused as a whole although part of it could be satisfied (round 8, seed C14-h)
                arg = list(w.unclaim_interleaving_comments()) + [stranger]
                b.key += ':released+stranger'
            if op.get('stranger_first'):
                arg.reverse()
            b.nontrivial = len(arg) > 1
            b.what = f'{type(P).__name__}.{op["prop"]}.{name}({len(arg) - 1} present comment(s) + 1 that is not there)'
            b.call = lambda: getattr(w, name)(arg)
        else:
            if not hasattr(P, name):
                raise OPS.NotApplicable(name)
            b.what = f'{type(P).__name__}.{name}() when the adjacent comment is already claimed'
            b.nontrivial = True
            b.call = lambda: getattr(P, name)()
        return b
    if k == 'rawtext':
        toks = OPS.tokens_of_class(root, op['cls'])
        if not toks:
            raise OPS.NotApplicable('no token')
        t = toks[op['ti'] % len(toks)]
        b.cls, b.key = 'f:rawtext', 'rawtext:' + op['cls']
        b.what = f'{op["cls"]} token {t.raw_text!r}.raw_text = {op["t"]!r}'
        b.nontrivial = True
        b.call = lambda: setattr(t, 'raw_text', op['t'])
        return b
    if k == 'arith':
        es = idx.get('NumberExpr') or []
        es2 = OPS.index_models(other).get('NumberExpr') or []
        pool = es2 if op.get('src_other') else es
        if not es or not pool:
            raise OPS.NotApplicable('no expr')
        left = es[op['mi'] % len(es)]
        cands = [e for e in pool if e is not left]
        if op.get('compound'):
            cands = [e for e in cands if e.raw_number_add_expr.raw_ops or e.raw_number_add_expr.raw_operands[0].raw_ops] or cands
        if not cands:
            raise OPS.NotApplicable('no operand')
        right = cands[op.get('sel', 0) % len(cands)]
        b.cls, b.key = 'g:arith', f"arith:{op['op']}:{'compound' if right.raw_number_add_expr.raw_ops else 'simple'}"
        b.what = f'attached {O.print_text(left)!r} {op["op"]} attached {O.print_text(right)!r}'
        b.nontrivial = True
        b.must_raise = True

        def call() -> None:
            x = left
            if op['op'] == '+=':
                x += right
            elif op['op'] == '-=':
                x -= right
            elif op['op'] == '*=':
                x *= right
            else:
                x /= right
        b.call = call
        return b
    if k == 'foreign-spacing':
        ms = [m for ms_ in idx.values() for m in ms_ if hasattr(type(m), 'raw_spacing_before') and not isinstance(m, models.File)]
        ms2 = [m for ms_ in OPS.index_models(other).values() for m in ms_ if hasattr(type(m), 'raw_spacing_before') and not isinstance(m, models.File)]
        if not ms or not ms2:
            raise OPS.NotApplicable('no models')
        x = ms[op['mi'] % len(ms)]
        if op.get('same_position'):
            y = ms2[op['mi'] % len(ms2)]
        else:
            y = ms2[op.get('sel', 0) % len(ms2)]
        side = op['side']
        toks = getattr(y, 'raw_spacing_' + side)
        if not toks:
            toks = getattr(y, 'raw_spacing_' + ('after' if side == 'before' else 'before'))
        if not toks:
            raise OPS.NotApplicable('no spacing tokens')
        b.cls, b.key, b.must_raise = 'h:foreign-spacing', 'foreign-spacing:' + side, True
        b.what = f'{type(x).__name__}.raw_spacing_{side} = spacing tokens that live in another document'
        b.nontrivial = True
        b.call = lambda: setattr(x, 'raw_spacing_' + side, toks)
        return b
    raise OPS.NotApplicable(k)


def public_views(root: Any) -> list:
    """What every list / view / mapping property of every model shows through the public getters (identities of nodes, values otherwise)."""
    out = []
    for cname, ms in sorted(OPS.index_models(root).items()):
        for mi, m in enumerate(ms):
            for p in S.props_of(m):
                if p.kind not in ('list', 'clist', 'fview', 'rawmeta', 'meta', 'sview', 'cview'):
                    continue
                try:
                    shown = [('node', id(x)) if isinstance(x, base.RawModel) else ('value', repr(x)) for x in getattr(m, p.name)]
                except ArithmeticError:
                    shown = ['unevaluable']
                except Exception as e:  # noqa: BLE001
                    shown = ['raised:' + type(e).__name__]
                out.append(((cname, mi, p.name), shown))
    return out


def views_diff(a: list, b: list) -> Optional[str]:
    if len(a) != len(b):
        return f'{len(a)} views before, {len(b)} after'
    for (k1, v1), (k2, v2) in zip(a, b):
        if k1 != k2 or v1 != v2:
            return f'{k1[0]}#{k1[1]}.{k1[2]} showed {len(v1)} entries {[x[0] for x in v1][:4]}, now shows {len(v2)} ({"same" if v1 == v2 else "different"} entries)'
    return None


def run_costform(case: dict) -> Result:
    """(e) every assignment to the cost group from every initial concrete form: whenever it raises, nothing may have changed."""
    from vf.props import c09
    res = Result()
    text = '2000-01-01 *\n  Assets:A 10 STK ' + case['form'] + ' @ 2 USD\n  Assets:B\n'
    try:
        root = common.parse_file(text)
    except Exception:  # noqa: BLE001
        return Result(discard=True)
    c = root.raw_directives[0].raw_postings[0].raw_cost
    classes = {'e:cost'}
    for step in case['ops']:
        field, v = step['field'], step['v']
        pyv = bool(v) if field == 'merge' else c09.to_py(field, v)
        before = O.Snapshot(root)
        try:
            setattr(c, field, pyv)
        except Exception as e:  # noqa: BLE001
            classes.add('raised')
            res.nontrivial = True
            d = before.diff(O.Snapshot(root))
            if d:
                res.bad(f'changed-after-refusal:cost:{field}', f'{case["form"]} after {case["ops"]}: {field} = {v!r} raised {e!r} but the document changed: {d}')
            break
    res.classes = sorted(classes)
    return res


def run_case(case: dict) -> Result:
    if case.get('kind') == 'costform':
        return run_costform(case)
    res = Result()
    root = common.parse_case(case)
    if root is None:
        return Result(discard=True)
    try:
        other = common.parse_file(L.text_of(case.get('dirs2', [])))
    except Exception:  # noqa: BLE001
        return Result(discard=True)
    classes = set()
    for op in case['ops']:
        if op.get('f') == 'bad':
            try:
                b = resolve_bad(root, other, op)
            except OPS.NotApplicable:
                continue
            if b.setup is not None:
                try:
                    b.setup()
                except Exception:  # noqa: BLE001 - the legal first step is not this property's subject
                    continue
                if O.invariants(root):
                    continue
            before, before2 = O.Snapshot(root), O.Snapshot(other)
            vbefore = public_views(root) + public_views(other)
            raised: Optional[BaseException] = None
            built: Any = None
            try:
                built = b.call()
            except Exception as e:  # noqa: BLE001
                raised = e
            classes.add(b.cls)
            if getattr(b, 'extra_class', None):
                classes.add(b.extra_class)
            if op.get('pos', 0) > 0:
                classes.add('nonfirst-in-batch')
            if raised is not None:
                classes.add('raised')
                res.nontrivial = res.nontrivial or b.nontrivial
                d = before.diff(O.Snapshot(root)) or before2.diff(O.Snapshot(other))
                if d:
                    res.bad(f'changed-after-refusal:{b.key}', f'{b.what} raised {raised!r} but the document changed: {d}')
                else:
                    vd = views_diff(vbefore, public_views(root) + public_views(other))
                    if vd:
                        res.bad(f'views-changed-after-refusal:{b.key}', f'{b.what} raised {raised!r} but what the models show changed: {vd}')
                if b.after_refusal is not None and not res.violations:
                    verdict = b.after_refusal()
                    if verdict:
                        res.bad(f'changed-after-refusal:{b.key}', f'{b.what} raised {raised!r} but {verdict}')
                if b.followup is not None and not res.violations:
                    # the history goes on: a legal call with the values the refused call did not object to
                    classes.add('retry-after-refusal')
                    try:
                        ret = b.followup()
                    except common.REFUSAL as e:
                        d = before.diff(O.Snapshot(root))
                        if d:
                            res.bad(f'changed-after-refusal:retry:{b.key}', f'{b.followup_what} after the refusal raised and changed the document: {d}')
                        elif b.followup_check is not None:
                            res.bad(f'retry-refused:{b.key}', f'{b.followup_what} after the refused {b.what} was refused too ({e!r}): the refused call consumed its free argument')
                    except Exception as e:  # noqa: BLE001
                        res.bad(f'retry-crashed:{b.key}:{type(e).__name__}', f'{b.followup_what} after the refused {b.what} raised {e!r}')
                    else:
                        inv = O.invariants(root)
                        if inv:
                            res.bad(f'retry-corrupts:{b.key}', f'{b.followup_what} after the refused {b.what} was accepted and left {inv[:2]}; printed {O.print_text(root)!r}')
                        elif b.followup_check is not None:
                            verdict = b.followup_check(ret)
                            if verdict:
                                res.bad(f'retry-wrong:{b.key}', f'{b.followup_what} after the refused {b.what}: {verdict}')
            elif b.must_raise:
                bad = O.invariants(root) + O.invariants(other)
                if isinstance(built, base.RawTreeModel):
                    # a constructor that accepted the arguments: what it built decides
                    try:
                        bad += O.invariants(built, whole_store=True)
                        toks = O.store_tokens(built.token_store)
                        if len({id(t) for t in toks}) != len(toks):
                            bad.append(('token-twice-in-store', 'the built model\'s store holds the same token object at two positions'))
                    except Exception as e:  # noqa: BLE001
                        bad.append(('built-unobservable', repr(e)))
                d1 = before2.diff(O.Snapshot(other))
                if bad or d1:
                    res.bad(f'not-refused:{b.key}', f'{b.what} did not raise; afterwards {bad[:2] or d1}')
                else:
                    classes.add('accepted-without-damage')
            break
        try:
            a = OPS.resolve(root, op)
            a.run()
        except OPS.NotApplicable:
            continue
        except Exception:  # noqa: BLE001 - the prefix is only there to vary the state
            break
    res.classes = sorted(classes)
    return res


# --------------------------------------------------------------------------- generation

BAD_RAW = {
    'DATE': ['2000-13-01', '2000-02-30', 'x', '2000-1', ''], 'NUMBER': ['abc', '', '1..2', '--'], 'BOOL': ['true', 'YES', ''],
    'BLOCK_COMMENT': ['no semicolon', '; a\nb', '', '  x'],
}


def _build(tier: str):
    cfg = L.Cfg(max_dirs=4, comments=0.35)

    def build(rnd: Any) -> dict:
        g = L.G(rnd, cfg)
        case = OPS.build_program(rnd, cfg, ['opt', 'val', 'list', 'view', 'claim', 'tok'], 3 if g.p(0.5) else 1, common.parse_file)
        if g.p(0.5):
            case['ops'] = []
        case['dirs2'] = g.document() if g.p(0.5) else copy.deepcopy(case['dirs'])
        try:
            root = common.parse_file(L.text_of(case['dirs']))
            for op in case['ops']:
                try:
                    OPS.resolve(root, op).run()
                except Exception:  # noqa: BLE001
                    pass
        except Exception:  # noqa: BLE001
            return case
        bad = _gen_bad(g, root)
        if bad is not None:
            case['ops'].append(bad)
        return case
    return build


def _mk(g: L.G, m: Any, p: Any) -> Any:
    return OPS.donor_for(g, m, p) if p.donors else None


def _gen_bad(g: L.G, root: Any) -> Optional[dict]:
    x = g.n(0, 11)
    idx = OPS.index_models(root)
    if x <= 4:
        cands = OPS.candidates(root, {'opt', 'req', 'copt', 'uopt', 'list', 'clist', 'fview', 'rawmeta'})
        if not cands:
            return None
        pairs = sorted({(c, p.name) for _, p, c, _ in cands})
        cn, pn = pairs[g.n(0, len(pairs) - 1)]
        inst = [y for y in cands if y[2] == cn and y[1].name == pn]
        m, p, cname, mi = inst[g.n(0, len(inst) - 1)]
        dst: dict = {'cls': cname, 'mi': mi, 'prop': p.name}
        nfresh = 0
        if p.kind in ('list', 'clist') and g.p(0.15):
            return {'f': 'bad', 'k': 'wholefield', 'dst': dst, 'sel': g.n(0, 50), 'src_other': g.p(0.4)}
        if p.kind in ('list', 'clist', 'fview', 'rawmeta') and g.p(0.15):
            n = len(getattr(m, p.name))
            name = g.pick(['extend', 'iadd', 'setslice', 'setext'])
            if name == 'setslice':
                dst['i'], dst['j'], _ = OPS.gen_slice(g, n)
            dst['op'] = name
            return {'f': 'bad', 'k': 'dupbatch', 'dst': dst, 'fresh': [OPS.donor_for(g, m, p)]}
        if p.kind in ('opt', 'req', 'copt', 'uopt', 'list', 'clist') and g.p(0.15):
            return {'f': 'bad', 'k': 'consumed', 'dst': dst, 'fresh': [OPS.donor_for(g, m, p)], 'sel': g.n(0, 9)}
        if p.kind in ('list', 'clist', 'fview', 'rawmeta'):
            n = len(getattr(m, p.name))
            name = g.pick(['append', 'insert', 'set', 'setslice', 'setslice', 'setext', 'extend', 'extend', 'iadd'] + (['mapset'] if p.kind == 'rawmeta' else []))
            dst['op'] = name
            dst['i'] = OPS.gen_index(g, n) if name != 'set' else g.n(0, 5)
            if name == 'setslice':
                dst['i'], dst['j'], _ = OPS.gen_slice(g, n)
            nfresh = g.n(0, 2) if name in ('setslice', 'extend', 'iadd', 'setext') else 0
        op = {'f': 'bad', 'k': 'attached', 'dst': dst, 'sel': g.n(0, 50), 'src_other': g.p(0.4), 'pos': g.n(0, 2),
              'fresh': [OPS.donor_for(g, m, p) for _ in range(nfresh)], 'fresh2': [OPS.donor_for(g, m, p) for _ in range(3)] if dst.get('op') == 'setext' else []}
        if dst.get('op') == 'mapset':
            op['key'] = g.meta_key()[1][:-1]
        return op
    if x == 5 and g.p(0.25) and idx.get('Custom'):
        return {'f': 'bad', 'k': 'values-attached', 'mi': g.n(0, len(idx['Custom']) - 1), 'op': g.pick(['setslice', 'extend', 'setext']), 'sel': g.n(0, 50), 'src_other': g.p(0.5)}
    if x == 5 and g.p(0.3):
        return {'f': 'bad', 'k': 'ctor-later-attached', 'sel': g.n(0, 50), 'src_other': g.p(0.5), 'num': g.pick(['7', '1 + 2', '-3', '(4)'])}
    if x == 5 and g.p(0.15):
        return {'f': 'bad', 'k': 'ctor-duplicate', 'which': g.n(0, 2)}
    if x == 5 and g.p(0.4):
        return {'f': 'bad', 'k': 'custom-ctor', 'how': g.pick(['from_value', 'from_children']), 'sel': g.n(0, 50), 'src_other': g.p(0.5)}
    if x == 5:
        names = sorted(n for n in idx if hasattr(idx[n][0], 'meta'))
        if not names:
            return None
        cn = g.pick(names)
        if g.p(0.3):
            return {'f': 'bad', 'k': 'meta-update', 'cls': cn, 'mi': g.n(0, len(idx[cn]) - 1), 'sel': g.n(0, 50), 'src_other': g.p(0.4)}
        return g.pick([{'f': 'bad', 'k': 'metaval', 'cls': cn, 'mi': g.n(0, len(idx[cn]) - 1), 'key': g.meta_key()[1][:-1], 'sel': g.n(0, 30),
                        'src_other': g.p(0.4)},
                       {'f': 'bad', 'k': 'from_children', 'sel': g.n(0, 30)}])
    if x in (6, 7):
        # an ordinary list/view/map op with arguments that a list / dict refuses
        cands = OPS.candidates(root, {'list', 'clist', 'fview', 'rawmeta', 'meta', 'sview', 'cview'})
        if not cands:
            return None
        for _ in range(12):
            m, p, cname, mi = cands[g.n(0, len(cands) - 1)]
            n = len(getattr(m, p.name))
            base_op = {'cls': cname, 'mi': mi, 'prop': p.name}
            y = g.n(0, 5)
            fam = 'list' if p.kind in ('list', 'clist') else 'view'
            if y == 0:
                op = {'f': fam, **base_op, 'op': g.pick(['pop', 'del']), 'i': g.pick([n, n + 1, -n - 1, -n - 2])}
            elif y == 1:
                op = OPS._gen_listop(g, fam, base_op, 'set', n, lambda: _mk(g, m, p), False)
                op['i'] = g.pick([n, n + 1, -n - 1])
            elif y == 2 and n >= 2:
                op = OPS._gen_listop(g, fam, base_op, 'setslice', n, lambda: _mk(g, m, p), False)
                op['i'], op['j'], op['k'] = None, None, g.pick([2, -1, -2])
                want = len(range(n)[::op['k']]) + g.pick([1, 2, -1])
                op['donors'] = [_mk(g, m, p) for _ in range(max(want, 0))]
            elif y == 3 and p.kind in ('rawmeta', 'meta'):
                op = {'f': 'map', **base_op, 'op': g.pick(['del', 'pop']), 'key': 'nosuchkey'}
            elif y == 4 and p.kind in ('list', 'clist') and n >= 2:
                op = {'f': 'list', **base_op, 'op': 'reverse'}
            elif y == 4 and p.kind in ('cview', 'fview') and n >= 2:
                # reverse() through a view that shows nodes: if it raises, nothing may have moved
                return {'f': 'bad', 'k': 'op', 'op': {'f': 'view', **base_op, 'op': 'reverse'}, 'may_raise': True}
            elif y == 5 and fam == 'view' and n >= 1:
                op = OPS._gen_listop(g, fam, base_op, 'setslice', n, lambda: _mk(g, m, p), False)
                op['i'], op['j'], op['k'] = 0, g.n(0, n), None
                op['donors'] = [_mk(g, m, p) for _ in range(g.n(0, 3))]
            else:
                continue
            if p.kind in ('sview', 'cview') and 'donors' in op:
                k = len(op.pop('donors'))
                op['vals'] = [D.value(p.domain, g) for _ in range(k)]
            return {'f': 'bad', 'k': 'op', 'op': op}
        return None
    if x == 8:
        if g.p(0.5):
            cands = OPS.candidates(root, {'clist'})
            if not cands:
                return None
            m, p, cname, mi = cands[g.n(0, len(cands) - 1)]
            return {'f': 'bad', 'k': 'comments', 'cls': cname, 'mi': mi, 'prop': p.name,
                    'op': g.pick(['claim_interleaving_comments', 'unclaim_interleaving_comments']),
                    'npresent': g.n(0, 2), 'stranger': g.pick(['fresh', 'other']), 'sel': g.n(0, 9), 'stranger_first': g.p(0.4), 'released': g.p(0.5)}
        names = sorted(n for n in idx if hasattr(idx[n][0], 'claim_leading_comment'))
        if not names:
            return None
        cn = g.pick(names)
        return {'f': 'bad', 'k': 'comments', 'cls': cn, 'mi': g.n(0, len(idx[cn]) - 1), 'op': g.pick(['claim_leading_comment', 'claim_trailing_comment'])}
    if x == 9:
        rule = g.pick(sorted(BAD_RAW))
        return {'f': 'bad', 'k': 'rawtext', 'cls': rule, 'ti': g.n(0, 30), 't': g.pick(BAD_RAW[rule])}
    if x == 10:
        cs = idx.get('CostSpec')
        if cs and g.p(0.5):
            mi = g.n(0, len(cs) - 1)
            prop = g.pick(['number_per', 'number_total', 'currency'])
            v = {'vt': 'none', 'v': None} if prop == 'currency' else {'vt': 'dec', 'v': str(g.n(1, 99))}
            return {'f': 'bad', 'k': 'op', 'may_raise': True, 'op': {'f': 'val', 'cls': 'CostSpec', 'mi': mi, 'prop': prop, 'v': v}}
        return {'f': 'bad', 'k': 'arith', 'mi': g.n(0, 30), 'sel': g.n(0, 30), 'op': g.pick(OPS.ARITH_OPS), 'compound': g.p(0.6),
                'src_other': g.p(0.3)}
    return {'f': 'bad', 'k': 'foreign-spacing', 'mi': g.n(0, 60), 'sel': g.n(0, 60), 'side': g.pick(['before', 'after']),
            'same_position': g.p(0.6)}


def _enum_costforms(maxlen: int):
    import itertools
    from vf.props import c09
    steps = c09._cost_steps()
    for form in c09.cost_forms():
        for n in range(1, maxlen + 1):
            for seq in itertools.product(steps, repeat=n):
                yield {'kind': 'costform', 'form': form['text'], 'ops': list(seq)}


def _enum_custom_ctor():
    doc = [[['X', '2000-01-01 custom "a" "s" -3\n2000-01-02 custom "b" 5 +2 USD\n2000-01-03 balance Assets:A  -4 USD\n2000-01-04 custom "c" 7\n']]]
    doc0 = [[['X', '2000-01-01 custom "budget" 2 1/0 "s" (2 - 2) / (1 - 1)\n  note: 3 / 0\n  ok: 1\n2000-01-02 close Assets:A\n  rate: 1 / (5 - 5)\n']]]
    for via, cls in (('values', 'Custom'), ('meta', 'Custom'), ('meta', 'Close')):
        for sel in range(2):
            yield {'dirs': doc0, 'dirs2': doc, 'ops': [{'f': 'bad', 'k': 'pop-unevaluable', 'via': via, 'cls': cls, 'mi': 0, 'sel': sel}]}
    doc1 = [[['X', '2000-01-01 custom "a" "weekly" Assets:Foo 3 USD TRUE\n2000-01-02 custom "b" Assets:Bar "x" 2000-01-01 5 EUR\n']]]
    for name, sel, src_other in itertools.product(('setslice', 'extend', 'setext'), range(10), (False, True)):
        yield {'dirs': doc1, 'dirs2': doc1, 'ops': [{'f': 'bad', 'k': 'values-attached', 'mi': 0, 'op': name, 'sel': sel, 'src_other': src_other}]}
    for which in range(3):
        yield {'dirs': doc, 'dirs2': doc, 'ops': [{'f': 'bad', 'k': 'ctor-duplicate', 'which': which}]}
        yield {'dirs': doc, 'dirs2': doc, 'ops': [{'f': 'bad', 'k': 'cyclic', 'which': which}]}
    for cls, sel, src_other in itertools.product(('Custom', 'Balance'), range(4), (False, True)):
        yield {'dirs': doc, 'dirs2': doc, 'ops': [{'f': 'bad', 'k': 'meta-update', 'cls': cls, 'mi': 0, 'sel': sel, 'src_other': src_other}]}
    for sel in range(3):
        for num in ('7', '1 + 2', '-3'):
            yield {'dirs': doc, 'dirs2': doc, 'ops': [{'f': 'bad', 'k': 'ctor-later-attached', 'sel': sel, 'src_other': sel % 2 == 0, 'num': num}]}
    for how in ('from_value', 'from_children'):
        for sel in range(8):
            for src_other in (False, True):
                yield {'dirs': doc, 'dirs2': doc, 'ops': [{'f': 'bad', 'k': 'custom-ctor', 'how': how, 'sel': sel, 'src_other': src_other}]}


def _enum_released():
    from vf.gen import sweeps
    n = 0
    for g, chunks, root in sweeps.sweep_docs(400, seed=1920):
        owners = [m for ms in OPS.index_models(root).values() for m in ms if hasattr(m, 'unclaim_leading_comment')]
        for side in ('leading', 'trailing'):
            have = [m for m in owners if vars(m).get('_' + side + '_comment') is not None]
            if not have:
                continue
            for into in ('leading', 'trailing'):
                for sel in range(min(2, len(have))):
                    yield {'dirs': chunks, 'dirs2': chunks, 'ops': [{'f': 'bad', 'k': 'released-comment', 'side': side, 'into': into, 'sel': sel, 'sel2': n}]}
                    n += 1


def _enum_attached():
    """Every node-accepting slot and list of every class, in each presence state: assignment of a node that still lives elsewhere in the document."""
    import collections
    from vf.gen import sweeps
    count: collections.Counter = collections.Counter()
    for g, chunks, root in sweeps.sweep_docs(400, seed=1919):
        for m, p, cname, mi in OPS.candidates(root, {'opt', 'req', 'copt', 'uopt', 'list', 'clist', 'fview', 'rawmeta'}):
            if p.kind in ('opt', 'req', 'copt', 'uopt'):
                try:
                    present = getattr(m, p.name) is not None
                except Exception:  # noqa: BLE001
                    continue
                variants = [{}]
            else:
                present = len(getattr(m, p.name)) > 0
                variants = [{'op': 'append'}, {'op': 'setslice', 'i': 0, 'j': 1}, {'op': 'extend'}]
            key = (cname, p.name, present)
            if count[key] >= 2:
                continue
            count[key] += 1
            if p.kind in ('list', 'clist', 'fview', 'rawmeta'):
                for name in ('extend', 'setslice', 'setext'):
                    yield {'dirs': chunks, 'dirs2': chunks, 'ops': [{'f': 'bad', 'k': 'dupbatch', 'dst': {'cls': cname, 'mi': mi, 'prop': p.name, 'op': name, 'i': 0, 'j': 1},
                                                                     'fresh': [OPS.donor_for(g, m, p)]}]}
            if p.kind in ('opt', 'req', 'copt', 'uopt', 'list', 'clist'):
                yield {'dirs': chunks + chunks, 'dirs2': chunks, 'ops': [{'f': 'bad', 'k': 'consumed', 'dst': {'cls': cname, 'mi': mi, 'prop': p.name},
                                                                          'fresh': [OPS.donor_for(g, m, p)], 'sel': 0}]}
            if p.kind in ('list', 'clist'):
                for src_other in (False, True):
                    yield {'dirs': chunks + chunks, 'dirs2': chunks, 'ops': [{'f': 'bad', 'k': 'wholefield', 'dst': {'cls': cname, 'mi': mi, 'prop': p.name},
                                                                               'sel': count[key], 'src_other': src_other}]}
            for v in variants:
                nfresh = 1 if v.get('op') in ('setslice', 'extend') else 0
                yield {'dirs': chunks, 'dirs2': chunks, 'ops': [{'f': 'bad', 'k': 'attached', 'dst': {'cls': cname, 'mi': mi, 'prop': p.name, **v}, 'sel': count[key] * 7,
                                                                 'src_other': False, 'pos': nfresh, 'fresh': [OPS.donor_for(g, m, p) for _ in range(nfresh)], 'fresh2': []}]}


def jobs(tier: str) -> list[Job]:
    return [Job('refusals', 'hyp', lambda: _build(tier), 4000 if tier == 'quick' else 150000),
            Job('attached-sweep', 'enum', _enum_attached, exhaustive=True),
            Job('released-comments', 'enum', _enum_released, exhaustive=True),
            Job('custom-constructor-attached', 'enum', _enum_custom_ctor, exhaustive=True),
            Job('cost-forms', 'enum', lambda: _enum_costforms(2 if tier == 'quick' else 3), exhaustive=True)]
