"""C01 - parse then print reproduces the input character for character."""
from __future__ import annotations

from typing import Any

import lark

from autobean_refactor import models, parser as parser_lib
from autobean_refactor.models import base

from vf.gen import ledger as L
from vf.obs import core as O
from vf.run import Job, Result

ID = 'C01'
RULE = ('Grammar-mirroring generator (G1): documents of 0-10 (quick) / 0-40 (thorough) directives of all 20 kinds with bodies, '
        'number expressions, costs, prices, meta, layout noise (tabs, CR LF / CR CR LF, blank and whitespace-only lines, comment blocks '
        'of both indentation classes in every position, missing final newline, multi-line strings, Unicode), target File; plus single-model '
        'texts (G2) for every other parse target that accepts text; auto_claim_comments drawn from {True, False}. Oracles: print == text; '
        'store concatenation == text; every sub-model prints its slice and owns exactly that store segment; the non-empty tokens '
        '(RULE, text) equal the generator\'s own piece list. Non-trivial = accepted text with >= 2 lines containing a block comment, a '
        'whitespace-only line, a CR, a missing final newline or a multi-line string, or any non-File target. distinct = distinct case hash.')
RULE = RULE + ' Round 8: strings, comments and account names also draw characters outside Unicode normalisation form C / KC; 3% of the number literals have 19-34 digits.'
ASSUMPTIONS = [
    'only lark exceptions (and ValueError from a lexeme without a valid meaning) define "not accepted"; such cases are discards',
    'number_add_expr and number_mul_expr are registered parse targets that reject every text (the post-lexer appends an end-of-line '
    'token they cannot take); they are not in the domain',
]
SHRINK_LISTS = ('dirs',)

_PARSER = None


def parser() -> Any:
    global _PARSER
    if _PARSER is None:
        _PARSER = parser_lib.Parser()
    return _PARSER


TREE_NAMES = sorted({cls.__name__ for cls in models.TREE_MODELS.values()} - {'NumberAddExpr', 'NumberMulExpr'} | {'NumberAddExpr', 'NumberMulExpr'})
REQUIRED_CLASSES = tuple(['model:' + n for n in TREE_NAMES] + ['inline-line-break', 'crlf', 'ws-only-line', 'no-final-newline', 'multiline-string',
                                                              'block-comment', 'claim:on', 'claim:off', 'target:file', 'target:other'])


def features(chunks: list, text: str) -> set:
    f = set()
    pieces = [p for c in chunks for p in c]
    for i, p in enumerate(pieces):
        if p[0] == 'BLOCK_COMMENT':
            f.add('block-comment')
            if '\n' in p[1]:
                f.add('multiline-comment')
        if p[0] == 'ESCAPED_STRING' and '\n' in p[1]:
            f.add('multiline-string')
        if p[0] == 'WHITESPACE' and (i == 0 or pieces[i - 1][0] == '_NEWLINE') and (i + 1 == len(pieces) or pieces[i + 1][0] == '_NEWLINE'):
            f.add('ws-only-line')
        if p[0] == '_NEWLINE' and '\r' in p[1]:
            f.add('crlf')
    if text and not text.endswith('\n'):
        f.add('no-final-newline')
    if any(p[0] == 'INDENT' and i and pieces[i - 1][0] == '_NEWLINE' for i, p in enumerate(pieces)):
        f.add('indented-line')
    return f


def run_case(case: dict) -> Result:
    res = Result()
    chunks = case['dirs']
    target = case.get('target', 'file')
    claim = bool(case.get('claim', True))
    text = L.text_of(chunks)
    cls = models.TREE_MODELS[target]
    try:
        model = parser().parse(text, cls, auto_claim_comments=claim)
    except lark.exceptions.LarkError:
        if case.get('nearmiss'):
            # a deliberately damaged text: refusing it is the expected outcome and counts as an evaluated case, not as a discard
            res.classes = ['nearmiss:rejected']
            return res
        return Result(discard=True)
    except (ValueError, OverflowError, RecursionError):
        # a lexeme without a valid meaning (date out of range, year too large for an int) or nesting beyond the interpreter's stack: a rejection
        res.discard = True
        res.classes = ['rejected-valueerror']
        return res
    except Exception as e:  # noqa: BLE001
        return res.bad(f'parse-crash:{type(e).__name__}', f'parse({text!r}, {cls.__name__}) raised {e!r} on a text built from the grammar')
    classes = features(chunks, text)
    if case.get('nearmiss'):
        classes.add('nearmiss:accepted')
    classes.add('claim:on' if claim else 'claim:off')
    classes.add('target:file' if target == 'file' else 'target:other')
    if target in L.INLINE_TARGETS and '\n' in text:
        classes.add('inline-line-break')
    res.nontrivial = (text.count('\n') >= 1 and bool(classes & {'block-comment', 'ws-only-line', 'crlf', 'no-final-newline', 'multiline-string'})) or target != 'file'

    printed = O.print_text(model)
    store = model.token_store
    order = O.Order(store)
    outer_only = False
    if printed != text:
        # Is the difference exactly the unowned trivia/comments that the store keeps outside the model's span?
        try:
            a, b = order.ord(model.first_token), order.ord(model.last_token)
            outside = order.tokens[:a] + order.tokens[b + 1:]
            inner = ''.join(t.raw_text for t in order.tokens[a:b + 1])
            outer_only = (target != 'file' and printed == inner and bool(outside) and all(
                isinstance(t, (O.Whitespace, O.Newline)) or type(t).__name__ in ('Indent', 'InlineComment') or (isinstance(t, O.BlockComment) and not t.claimed) or t.raw_text == ''
                for t in outside))
            has_comment = any(isinstance(t, O.BlockComment) for t in outside)
            # with attribution on, a comment of the model's own indentation class separated from it by exactly one line break is the model's
            # leading / trailing comment by the documented rule: left outside, it is not the known outer-trivia case
            claimable = False
            if claim and has_comment and hasattr(model, 'claim_leading_comment'):   # only models that can own surrounding comments
                indented = type(order.tokens[a]).__name__ == 'Indent'
                for side, rng in (('before', range(a - 1, -1, -1)), ('after', range(b + 1, len(order.tokens)))):
                    breaks = 0
                    for i in rng:
                        t = order.tokens[i]
                        if t.raw_text == '' or isinstance(t, O.Whitespace) or (side == 'after' and type(t).__name__ == 'Indent'):
                            continue
                        if isinstance(t, O.Newline):
                            breaks += t.raw_text.count('\n')
                            continue
                        if isinstance(t, O.BlockComment) and breaks == 1 and not t.claimed and (t.raw_text[:1] in (' ', '\t')) == indented:   # judged on the text, not on what the library parsed as indent
                            claimable = True
                        break
        except Exception:  # noqa: BLE001
            outer_only = False
            has_comment = False
            claimable = False
        if outer_only and claimable:
            res.bad('print!=text:adjacent-comment-not-claimed:claim=on',
                    f'parse({text!r}, {cls.__name__}, auto_claim_comments=True) prints {printed!r}: a comment of the model\'s own indentation class directly next to it was left unowned')
        elif outer_only:
            res.bad('print!=text:unowned-outer-trivia:' + ('comment' if has_comment else 'blank') + ':claim=' + ('on' if claim else 'off'),
                    f'parse({text!r}, {cls.__name__}, auto_claim_comments={claim}) prints {printed!r}: trivia outside the model stays in the store but is not printed')
        else:
            res.bad('print!=text', f'printed {printed!r} for input {text!r} (target {target}, claim={claim})')
    cat = ''.join(t.raw_text for t in order.tokens)
    if cat != text:
        res.bad('store!=text', f'store concatenation {cat!r} for input {text!r}')
    if res.violations and not outer_only:
        res.classes = sorted(classes)
        return res
    # (c) sub-model slices
    for m, _ in O.walk(model, order):
        classes.add(('model:' if isinstance(m, base.RawTreeModel) else 'tok:') + type(m).__name__)
        if isinstance(m, base.RawTokenModel):
            continue
        try:
            a, b = order.ord(m.first_token), order.ord(m.last_token)
        except Exception as e:  # noqa: BLE001
            res.bad(f'span-raised:{type(m).__name__}', f'first/last of {type(m).__name__} raised {e!r} in {text!r}')
            break
        if a is None or b is None or a > b:
            res.bad(f'span:{type(m).__name__}', f'{type(m).__name__} first/last not an ordered pair of store tokens in {text!r}')
            break
        expect = text[order.offset[a]: order.offset[b] + len(order.tokens[b].raw_text)]
        got = O.print_text(m)
        if got != expect:
            res.bad(f'slice:{type(m).__name__}', f'{type(m).__name__} prints {got!r}, its span in the input is {expect!r} (input {text!r})')
            break
        toks = m.tokens
        if len(toks) != b - a + 1 or any(x is not y for x, y in zip(toks, order.tokens[a:b + 1])):
            res.bad(f'tokens:{type(m).__name__}', f'{type(m).__name__}.tokens is not the store segment {a}..{b} (input {text!r})')
            break
    # (c') the slices nest: every sub-model lies inside its parent, siblings do not overlap, every significant token has one owner
    if not res.violations:
        inv = O.invariants(model, whole_store=(target == 'file'), trivia_extra=() if target == 'file' else ('Indent', 'InlineComment'))
        if inv:
            res.bad(f'nesting:{inv[0][0]}', f'parse({text!r}, {cls.__name__}, auto_claim_comments={claim}) gives a tree whose spans do not nest: {inv[:3]}')
    # (d) independent tokenisation (only when the case carries the generator's piece list)
    if case.get('raw'):
        res.classes = sorted(classes)
        return res
    got_p = [[type(t).RULE, t.raw_text] for t in order.tokens if t.raw_text != '']
    exp_p = [list(p) for p in L.pieces_of(chunks)]
    if got_p != exp_p:
        i = next((k for k, (x, y) in enumerate(zip(got_p, exp_p)) if x != y), min(len(got_p), len(exp_p)))
        res.bad('tokenisation', f'token #{i}: store has {got_p[i:i + 3]!r}, generator built {exp_p[i:i + 3]!r} (input {text!r})')
    res.classes = sorted(classes)
    return res


def _cfg(tier: str) -> L.Cfg:
    return L.Cfg(max_dirs=10 if tier == 'quick' else 40)


def _build_file(tier: str):
    cfg = _cfg(tier)

    def build(rnd: Any) -> dict:
        return {'target': 'file', 'claim': rnd.randint(0, 99) < 50, 'dirs': L.build_doc(rnd, cfg)}
    return build


def _build_target(tier: str):
    cfg = _cfg(tier)
    targets = [t for t in L.TARGETS if t != 'file']

    def build(rnd: Any) -> dict:
        t = targets[rnd.randint(0, len(targets) - 1)]
        return {'target': t, 'claim': rnd.randint(0, 99) < 50, 'dirs': L.build_target(rnd, t, cfg)}
    return build


def _build_nearmiss(tier: str):
    """Texts one structural step away from generated ones: an indent dropped, doubled or moved, a line break dropped, two pieces swapped.
    Most are refused (which is fine); whatever parse() accepts must be reproduced like any other accepted text."""
    cfg = _cfg(tier)
    targets = ['posting', 'meta_item', 'transaction', 'file', 'open', 'balance', 'custom']

    def build(rnd: Any) -> dict:
        t = targets[rnd.randint(0, len(targets) - 1)]
        chunks = L.build_target(rnd, t, cfg) if t != 'file' else L.build_doc(rnd, cfg)
        flat = [list(p) for c in chunks for p in c]
        idx_indent = [i for i, p in enumerate(flat) if p[0] == 'INDENT']
        idx_nl = [i for i, p in enumerate(flat) if p[0] == '_NEWLINE']
        k = rnd.randint(0, 5)
        if k == 0 and idx_indent:
            del flat[idx_indent[0]]                       # the first line loses its indent
        elif k == 1 and idx_indent:
            del flat[idx_indent[rnd.randint(0, len(idx_indent) - 1)]]
        elif k == 2 and idx_indent:
            i = idx_indent[rnd.randint(0, len(idx_indent) - 1)]
            flat.insert(i, ['INDENT', flat[i][1]])
        elif k == 3 and idx_nl:
            del flat[idx_nl[rnd.randint(0, len(idx_nl) - 1)]]
        elif k == 4 and len(flat) >= 2:
            i = rnd.randint(0, len(flat) - 2)
            flat[i], flat[i + 1] = flat[i + 1], flat[i]
        elif idx_nl:
            i = idx_nl[rnd.randint(0, len(idx_nl) - 1)]
            flat.insert(i + 1, ['INDENT', '  '])
        return {'target': t, 'claim': rnd.randint(0, 99) < 50, 'dirs': [[['X', ''.join(p[1] for p in flat)]]], 'raw': True, 'nearmiss': True}
    return build


def jobs(tier: str) -> list[Job]:
    if tier == 'quick':
        return [Job('file-docs', 'hyp', lambda: _build_file(tier), 3000),
                Job('single-targets', 'hyp', lambda: _build_target(tier), 2500),
                Job('near-miss-texts', 'hyp', lambda: _build_nearmiss(tier), 3000)]
    return [Job('file-docs', 'hyp', lambda: _build_file(tier), 200000),
            Job('single-targets', 'hyp', lambda: _build_target(tier), 100000),
            Job('near-miss-texts', 'hyp', lambda: _build_nearmiss(tier), 100000),
            Job('fuzz-bytes', 'fuzz', _fuzz_spec)]


def _fuzz_spec() -> dict:
    """libFuzzer over raw UTF-8 bytes (first byte: target and attribution mode) with the round-trip oracle in the target; the corpus is
    seeded with generated documents so that mutation starts from accepted texts."""
    import random
    rnd = random.Random(101)
    seeds = []
    for i in range(150):
        t = 'file' if i % 3 else L.TARGETS[1 + i % (len(L.TARGETS) - 1)]
        text = L.text_of(L.build_target(rnd, t, L.Cfg(max_dirs=3)))
        from vf.fuzz.targets_index import C01_TARGETS
        sel = (C01_TARGETS.index(t) << 1 | (i & 1)) if t in C01_TARGETS else (i & 1)
        seeds.append(bytes([sel]) + text.encode('utf-8'))
    return {'runs': 400000, 'max_len': 400, 'seeds': seeds}
