"""C11 - a deep copy is equal, exact and fully independent."""
from __future__ import annotations

import copy
from typing import Any, Optional

from autobean_refactor.models import base

from vf.gen import ledger as L, ops as OPS, sweeps
from vf.obs import core as O
from vf.props import common, c04
from vf.run import Job, Result

ID = 'C11'
RULE = ('A generated ledger (G1, either attribution mode, optionally after a short claim/unclaim program so that placeholders have moved); '
        'in a share of the cases some models get a non-default indent_by first; a model chosen by selector at any depth (sweep job: every sub-model of each document; slot-sweep job: the same after every optional / required / value slot of every class was filled or cleared once; copy-after-edit stage: after a generated edit program) is deep-copied; then an edit program of 1-6 operations from '
        'every family is applied to the copy and another to the original. Oracle: copy == original and original == copy; same printed text; same indent_by and claimed flags on corresponding sub-models; no '
        'shared token; the copy satisfies the structural invariants in its own store and spans it entirely; editing the copy leaves the original '
        'document\'s snapshot (text, token identities, structure, flags) unchanged and editing the original leaves the copy\'s snapshot unchanged. '
        'Non-trivial = the copied model is not the root, has >= 1 tree-model child, and a structural edit was applied inside the copy.')
ASSUMPTIONS = ['edit programs for the copy are generated against a scratch copy of the same model (state-aware), then replayed']
SHRINK_LISTS = ('ops', 'ops2', 'pre', 'indent_by', 'dirs')
REQUIRED_CLASSES = ('copy-after-edit', 'sweep-after-edit', 'view-copies', 'indent_by-set', 'claim:on', 'claim:off', 'after-claim-program', 'depth>=2', 'edited-copy', 'edited-original', 'token-copy')


def check_copy(m: Any, cp: Any, what: str) -> list:
    bad = []
    key = type(m).__name__
    try:
        if not (cp == m) or not (m == cp):
            bad.append((f'not-equal:{key}', f'{what}: deepcopy of {key} {O.print_text(m)!r} does not compare equal to the original'))
    except Exception as e:  # noqa: BLE001
        bad.append((f'eq-raised:{key}', f'{what}: comparing the copy raised {e!r}'))
    if not isinstance(m, base.RawTokenModel):
        # data that is not text: every corresponding sub-model carries the same settings
        try:
            for (a, _), (b, _) in zip(O.walk(m), O.walk(cp)):
                if type(a) is not type(b):
                    bad.append((f'structure:{key}', f'{what}: the copy has a {type(b).__name__} where the original has a {type(a).__name__}'))
                    break
                if hasattr(type(a), 'indent_by') and a.indent_by != b.indent_by:
                    bad.append((f'data:indent_by:{type(a).__name__}', f'{what}: {type(a).__name__}.indent_by is {a.indent_by!r} in the original and {b.indent_by!r} in the copy of {key}'))
                    break
                if type(a).__name__ == 'BlockComment' and a.claimed != b.claimed:
                    bad.append((f'data:claimed:{key}', f'{what}: a comment\'s claimed flag is {a.claimed} in the original and {b.claimed} in the copy'))
                    break
        except Exception as e:  # noqa: BLE001
            bad.append((f'walk-raised:{key}', f'{what}: walking the copy raised {e!r}'))
    if O.print_text(cp) != O.print_text(m):
        bad.append((f'text:{key}', f'{what}: copy prints {O.print_text(cp)!r}, original spans {O.print_text(m)!r}'))
    if isinstance(m, base.RawTokenModel):
        if cp is m:
            bad.append((f'same-object:{key}', f'{what}: deepcopy returned the same token'))
        if cp.token_store is not None:
            bad.append((f'token-copy-in-store:{key}', f'{what}: the copied token is attached to a store'))
        return bad
    mine = {id(t) for t in O.store_tokens(m.token_store)}
    theirs = O.store_tokens(cp.token_store)
    if any(id(t) in mine for t in theirs):
        bad.append((f'shared-token:{key}', f'{what}: the copy shares a token with the original'))
    inv = O.invariants(cp, whole_store=True)
    if inv:
        bad.append((f'copy-invariant:{inv[0][0]}:{key}', f'{what}: the copy of {key} is not a complete tree in its own store: {inv[:2]}'))
    return bad


def check_view_copies(root: Any) -> Optional[tuple]:
    """A deep copy of a view (tags, postings, meta, ...) is a view of a copy of the list: edits through it show in it, not in the original."""
    from vf.gen import schema as S
    from vf.props import c10
    for ms in OPS.index_models(root).values():
        for m in ms:
            for p in S.props_of(m):
                if p.kind not in ('fview', 'sview', 'cview', 'rawmeta', 'meta') or p.name not in c10.VIEW_SPECS:
                    continue
                _, vis, _ = c10.VIEW_SPECS[p.name]
                view = getattr(m, p.name)
                if len(view) == 0:
                    continue
                snap = O.Snapshot(root)
                try:
                    cv = copy.deepcopy(view)
                    before = list(cv)
                    cv.pop()
                    after = list(cv)
                    raw_now = [c10.convert(p.name, x) for x in cv._raw_wrapper if c10.visible(vis, x)]
                except ArithmeticError:
                    continue
                except Exception as e:  # noqa: BLE001
                    return (f'view-copy-raised:{type(m).__name__}.{p.name}:{type(e).__name__}', f'deepcopy({type(m).__name__}.{p.name}) then pop() and reading it raised {e!r}')
                if not c10.same_list(after, before[:-1]) and not all(isinstance(x, base.RawModel) for x in before):
                    return (f'view-copy-stale:{type(m).__name__}.{p.name}', f'deepcopy({type(m).__name__}.{p.name}).pop(): the copy shows {after!r}, a list gives {before[:-1]!r}')
                if len(after) != len(before) - 1 or len(raw_now) != len(after):
                    return (f'view-copy-stale:{type(m).__name__}.{p.name}', f'deepcopy({type(m).__name__}.{p.name}).pop(): the copy shows {len(after)} entries, its own list holds {len(raw_now)}, a list gives {len(before) - 1}')
                d = snap.diff(O.Snapshot(root))
                if d:
                    return (f'view-copy-not-independent:{type(m).__name__}.{p.name}', f'editing deepcopy({type(m).__name__}.{p.name}) changed the original: {d}')
    return None


def run_case(case: dict) -> Result:
    res = Result()
    claim = bool(case.get('claim', True))
    root = common.parse_case(case, claim=claim)
    if root is None:
        return Result(discard=True)
    classes = {'claim:on' if claim else 'claim:off'}
    if case.get('pre'):
        classes.add('after-claim-program')
        for op in case['pre']:
            try:
                c04._act(root, OPS.index_models(root), op, set())
            except Exception:  # noqa: BLE001
                pass
    if case.get('indent_by'):
        # settings that are not text (documented attribute, docs/special/indents.md) travel with a copy too
        holders = [m for m, _ in O.walk(root) if hasattr(type(m), 'indent_by')]
        for sel, text in case['indent_by']:
            if holders:
                holders[sel % len(holders)].indent_by = text
                classes.add('indent_by-set')
    if case.get('sweep'):
        if case.get('ops'):
            # the slot sweep as a prelude: every optional / required / value slot of every class filled or cleared once, then everything is copied
            for op in case['ops']:
                try:
                    OPS.resolve(root, op).run()
                    classes.add('sweep-after-edit')
                except Exception:  # noqa: BLE001
                    pass
        for m, d in O.walk(root):
            if isinstance(m, O.Repeated):
                continue
            try:
                cp = copy.deepcopy(m)
            except Exception as e:  # noqa: BLE001
                res.bad(f'copy-raised:{type(m).__name__}', f'deepcopy({type(m).__name__} {O.print_text(m)!r}) raised {e!r}')
                break
            if isinstance(m, base.RawTokenModel):
                classes.add('token-copy')
            if d >= 2:
                classes.add('depth>=2')
            bad = check_copy(m, cp, 'sweep')
            if bad:
                res.bad(*bad[0])
                break
            if d >= 1 and isinstance(m, base.RawTreeModel):
                res.nontrivial = True
        if not res.violations:
            bad = check_view_copies(root)
            classes.add('view-copies')
            if bad:
                res.bad(*bad)
        res.classes = sorted(classes)
        return res
    models_ = [(m, d) for m, d in O.walk(root) if isinstance(m, base.RawTreeModel) and not isinstance(m, O.Repeated)]
    m, depth = models_[case.get('sel', 0) % len(models_)]
    if depth >= 2:
        classes.add('depth>=2')
    try:
        cp = copy.deepcopy(m)
    except Exception as e:  # noqa: BLE001
        return res.bad(f'copy-raised:{type(m).__name__}', f'deepcopy({type(m).__name__} {O.print_text(m)!r}) raised {e!r}')
    bad = check_copy(m, cp, 'selected')
    if bad:
        res.bad(*bad[0])
        res.classes = sorted(classes)
        return res
    has_tree_child = any(isinstance(c, base.RawTreeModel) for c in O.raw_children(m))
    # edit the copy: the original must not change
    snap_root = O.Snapshot(root)
    structural = False
    for op in case.get('ops', []):
        try:
            a = OPS.resolve(cp, op)
            a.run()
            structural = structural or (a.structural and bool(a.inserted or a.removed))
            classes.add('edited-copy')
        except OPS.NotApplicable:
            continue
        except Exception:  # noqa: BLE001
            break
        d = snap_root.diff(O.Snapshot(root))
        if d:
            res.bad(f'original-changed:{a.key()}', f'editing the copy of {type(m).__name__} with {op} changed the original document: {d}')
            break
    if not res.violations:
        try:
            snap_cp = O.Snapshot(cp)
        except Exception:  # noqa: BLE001
            snap_cp = None
        for op in case.get('ops2', []):
            try:
                a = OPS.resolve(root, op)
                a.run()
                classes.add('edited-original')
            except OPS.NotApplicable:
                continue
            except Exception:  # noqa: BLE001
                break
            if snap_cp is not None:
                d = snap_cp.diff(O.Snapshot(cp))
                if d:
                    res.bad(f'copy-changed:{a.key()}', f'editing the original with {op} changed the copy of {type(m).__name__}: {d}')
                    break
    # a copy taken after the edits (of the edited copy, and of the edited original's model): still equal, exact, complete
    if not res.violations:
        for label, obj in (('edited-copy', cp), ('edited-original', m)):
            try:
                if obj.token_store is None:
                    continue
                o_now = O.Order(obj.token_store)
                if o_now.ord(obj.first_token) is None and o_now.ord(obj.last_token) is None:
                    continue   # the edits removed this very model from its document: a stale reference, not a model of the document any more
                inv = O.invariants(obj, whole_store=(obj is cp))
                if {k for k, _ in inv} - {'leaf-not-in-store', 'not-in-store'}:
                    continue   # an edit broke the tree in a way a copy would only repeat (an unowned token from a donor ...): C05's subject
                # (tokens of the model that an edit dropped from the store make the copy fail: reported here too, it is a reachable state)
                cp2 = copy.deepcopy(obj)
            except Exception as e:  # noqa: BLE001
                res.bad(f'copy-after-edit-raised:{label}:{type(obj).__name__}:{type(e).__name__}', f'deepcopy of the {label} {type(obj).__name__} raised {e!r} after {case.get("ops")} / {case.get("ops2")}')
                break
            classes.add('copy-after-edit')
            bad = check_copy(obj, cp2, 'copy after edits (' + label + ')')
            if bad:
                res.bad(bad[0][0] + ':after-edit', bad[0][1])
                break
    res.classes = sorted(classes)
    res.nontrivial = depth >= 1 and has_tree_child and structural
    return res


def _build(tier: str, sweep: bool):
    cfg = L.Cfg(max_dirs=4 if tier == 'quick' else 8, comments=0.35)

    def build(rnd: Any) -> dict:
        g = L.G(rnd, cfg)
        claim = g.p(0.6)
        chunks = g.document()
        case: dict = {'dirs': chunks, 'claim': claim, 'ops': [], 'ops2': [], 'pre': [], 'sel': g.n(0, 200)}
        if g.p(0.4):
            for _ in range(g.n(1, 5)):
                case['pre'].append({'f': 'read', 'what': 'claim', 'mi': g.n(0, 30), 'op': g.pick(c04.CLAIM_OPS), 'ignore': True, 'li': g.n(0, 1)})
        if g.p(0.4):
            case['indent_by'] = [[g.n(0, 60), g.pick(['  ', '\t', ' ', '', '        ', ' \t'])] for _ in range(g.n(1, 4))]
        if sweep:
            case['sweep'] = True
            return case
        try:
            root = common.parse_file(L.text_of(chunks), claim)
            for sel, text in case.get('indent_by', []):
                holders = [m for m, _ in O.walk(root) if hasattr(type(m), 'indent_by')]
                if holders:
                    holders[sel % len(holders)].indent_by = text
            for op in case['pre']:
                try:
                    c04._act(root, OPS.index_models(root), op, set())
                except Exception:  # noqa: BLE001
                    pass
            ms = [(m, d) for m, d in O.walk(root) if isinstance(m, base.RawTreeModel) and not isinstance(m, O.Repeated)]
            # prefer models with structure
            rich = [i for i, (m, d) in enumerate(ms) if d >= 1 and any(isinstance(c, base.RawTreeModel) for c in O.raw_children(m))]
            if rich and g.p(0.8):
                case['sel'] = g.pick(rich)
            m = ms[case['sel'] % len(ms)][0]
            cp = copy.deepcopy(m)
            for _ in range(g.n(1, 6)):
                op = OPS.propose(g, cp, common.EDIT_FAMILIES)
                if op is None:
                    continue
                case['ops'].append(op)
                try:
                    OPS.resolve(cp, op).run()
                except OPS.NotApplicable:
                    case['ops'].pop()
                except Exception:  # noqa: BLE001
                    break
            for _ in range(g.n(1, 4)):
                op = OPS.propose(g, root, common.EDIT_FAMILIES)
                if op is None:
                    continue
                case['ops2'].append(op)
                try:
                    OPS.resolve(root, op).run()
                except OPS.NotApplicable:
                    case['ops2'].pop()
                except Exception:  # noqa: BLE001
                    break
        except Exception:  # noqa: BLE001
            pass
        return case
    return build


EDGE_DOCS = [
    '2000-01-01 *\n  Assets:A 1 USD @ 0\n  Assets:B 2 USD @@ 0.00\n  Assets:C 3 USD {0 # 5 EUR}\n  Assets:D 4 USD {# 0 EUR}\n  Assets:E 0 USD {0} @\n  Assets:F\n',
    '2000-01-01 balance Assets:A 0 ~ 0 USD\n2000-01-02 price USD 0 EUR\n2000-01-03 custom "x" 0 0 USD -0 (0)\n',
    '2000-01-01 *\n  Assets:A {} @\n  Assets:B {{}} @@\n  Assets:C 0\n  Assets:D USD\n  kk: 0\n  nn:\n',
    '2000-01-01 open Assets:A\n  kk: 0\n  ee: 1 - 1\n  ff: FALSE\n  gg: ""\n',
]


def _edge_docs():
    """Values that are falsy in Python (0, 0.00, '', FALSE, empty lists) at the optional edges of models: every sub-model is copied."""
    for text in EDGE_DOCS:
        for claim in (True, False):
            yield {'dirs': [[['X', text]]], 'claim': claim, 'ops': [], 'ops2': [], 'pre': [], 'sel': 0, 'sweep': True}


def jobs(tier: str) -> list[Job]:
    if tier == 'quick':
        return [Job('copy-and-edit', 'hyp', lambda: _build(tier, False), 2000), Job('sweep-all-submodels', 'hyp', lambda: _build(tier, True), 250),
                Job('edge-documents', 'enum', _edge_docs, exhaustive=True),
                Job('slot-sweep-then-copy', 'enum', lambda: sweeps.slot_sweep(per_key=1, n_docs=300), exhaustive=True)]
    return [Job('copy-and-edit', 'hyp', lambda: _build(tier, False), 60000), Job('sweep-all-submodels', 'hyp', lambda: _build(tier, True), 8000),
            Job('edge-documents', 'enum', _edge_docs, exhaustive=True),
            Job('slot-sweep-then-copy', 'enum', lambda: sweeps.slot_sweep(per_key=2, n_docs=500), exhaustive=True)]
