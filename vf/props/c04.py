"""C04 - operations that are not edits never change the document."""
from __future__ import annotations

import copy
from typing import Any, Optional

from autobean_refactor.models import base

from vf.gen import ledger as L, ops as OPS, schema as S
from vf.obs import core as O
from vf.props import common
from vf.run import Job, Result

ID = 'C04'
RULE = ('A generated ledger (G1, comment-dense) parsed with attribution on or off, then a program of 5-25 read-only / attribution actions: '
        'read every public non-callable attribute of every model (dir()), exercise every wrapper (len, iteration, reversed, every int index in '
        '[-len-1, len], slices with steps +-1 +-2, in, index, count, ==; mapping keys/values/items/get/in), == / != between models, hash of '
        'tokens, repr, copy.deepcopy, print_model, .tokens, iter_children_formatted, and the attribution calls auto_claim_comments (any '
        'model), claim_/unclaim_leading/trailing_comment (both ignore flags), claim_/unclaim_interleaving_comments (all or a subset). '
        'a second job first edits the document (value / slot / list / view / copy / arithmetic / token edits) and reads afterwards, so that lazily built '
        'views are first read on the edited document; an enumeration does the same for custom value lists edited through the raw list. '
        'Oracle after every action: the list of visible tokens (raw_text != "") by identity and text, and the printed text, are unchanged. '
        'Non-trivial = the program contains an attribution call that moved a placeholder or changed an owner, on a document with a comment.')
ASSUMPTIONS = ['an exception raised by a read (e.g. hash of a tree model) is not a violation; the document is still compared',
               'mutators are never called: callables are invoked only from a whitelist']
SHRINK_LISTS = ('ops', 'dirs')
REQUIRED_CLASSES = ('after-edit', 'lf:4', 'act:attrs', 'act:wrappers', 'act:claim', 'act:copy', 'claim:on', 'claim:off', 'attribution-changed')

CLAIM_OPS = ['auto', 'claim_leading_comment', 'unclaim_leading_comment', 'claim_trailing_comment', 'unclaim_trailing_comment',
             'claim_interleaving_comments', 'unclaim_interleaving_comments', 'claim_interleaving_subset', 'unclaim_interleaving_subset']


def visible(root: Any) -> tuple:
    toks = [t for t in O.store_tokens(root.token_store) if t.raw_text != '']
    return toks, [t.raw_text for t in toks]


def ownership(root: Any) -> list:
    out = []
    for t in O.store_tokens(root.token_store):
        if type(t).__name__ == 'BlockComment':
            out.append((id(t), t.claimed))
    order = [id(t) for t in O.store_tokens(root.token_store)]
    return [out, order]


def _wrappers(m: Any) -> list:
    out = []
    for p in S.props_of(m):
        if p.kind in ('list', 'clist', 'fview', 'rawmeta', 'meta', 'sview', 'cview'):
            try:
                out.append((p, getattr(m, p.name)))
            except Exception:  # noqa: BLE001
                pass
    return out


def exercise_wrapper(w: Any, p: Any) -> None:
    n = len(w)
    items = list(w)
    list(reversed(w))
    for i in range(-n - 1, n + 1):
        try:
            w[i]
        except IndexError:
            pass
    for sl in (slice(None), slice(None, None, -1), slice(None, None, 2), slice(None, None, -2), slice(1, None), slice(None, -1), slice(5, 1)):
        w[sl]
    if items:
        try:
            items[0] in w
            w.index(items[-1])
            w.count(items[0])
        except Exception:  # noqa: BLE001
            pass
    w == items
    w != items
    if p.kind in ('rawmeta', 'meta'):
        list(w.keys())
        list(w.values())
        list(w.items())
        for k in list(w.keys())[:3] + ['no-such-key']:
            w.get(k)
            k in w
            try:
                w[k]
            except KeyError:
                pass


def run_case(case: dict) -> Result:
    from vf.gen import store as GS
    old = GS.set_lf(int(case.get('lf', 1000)))
    try:
        return _run(case)
    finally:
        GS.restore_lf(old)


def _run(case: dict) -> Result:
    res = Result()
    claim = bool(case.get('claim', True))
    root = common.parse_case(case, claim=claim)
    if root is None:
        return Result(discard=True)
    classes = {'claim:on' if claim else 'claim:off', 'lf:%d' % int(case.get('lf', 1000))}
    has_comment = any(type(t).__name__ == 'BlockComment' for t in O.store_tokens(root.token_store))
    for op in case['ops']:
        idx = OPS.index_models(root)
        toks0, texts0 = visible(root)
        printed0 = O.print_text(root)
        own0 = ownership(root)
        what = op.get('what')
        if op.get('f') != 'read':
            # an edit: the document the following reads must leave alone is the edited one (views not yet built are first read after it)
            try:
                OPS.resolve(root, op).run()
                classes.add('after-edit')
            except Exception:  # noqa: BLE001 - edits are other properties' subject
                pass
            continue
        try:
            _act(root, idx, op, classes)
        except OPS.NotApplicable:
            continue
        except Exception:  # noqa: BLE001 - an exception from a read is not a violation
            classes.add('read-raised')
        classes.add('act:' + ('claim' if what == 'claim' else str(what)))
        toks1, texts1 = visible(root)
        key = what if what != 'claim' else 'claim:' + str(op.get('op'))
        if len(toks0) != len(toks1) or any(x is not y for x, y in zip(toks0, toks1)):
            res.bad(f'visible-tokens:{key}', f'{op}: the visible tokens changed (created, dropped or re-ordered): '
                    f'{"".join(texts0)!r} -> {"".join(texts1)!r}')
            break
        if texts0 != texts1:
            res.bad(f'token-text:{key}', f'{op}: a token\'s text changed: {"".join(texts0)!r} -> {"".join(texts1)!r}')
            break
        printed1 = O.print_text(root)
        if printed1 != printed0:
            res.bad(f'printed:{key}', f'{op}: printed text changed: {printed0!r} -> {printed1!r}')
            break
        if what == 'claim' and ownership(root) != own0:
            classes.add('attribution-changed')
            if has_comment:
                res.nontrivial = True
    res.classes = sorted(classes)
    return res


def _act(root: Any, idx: dict, op: dict, classes: set) -> None:
    what = op['what']
    all_models = [m for ms in idx.values() for m in ms]
    if what == 'attrs':
        for m in all_models + O.store_tokens(root.token_store)[:40]:
            for name in dir(m):
                if name.startswith('_'):
                    continue
                try:
                    v = getattr(m, name)
                except Exception:  # noqa: BLE001
                    continue
                if not callable(v):
                    classes.add(f'read:{type(m).__name__}')
    elif what == 'wrappers':
        for m in all_models:
            for p, w in _wrappers(m):
                exercise_wrapper(w, p)
    elif what == 'eq':
        for a, b in zip(all_models, all_models[1:] + all_models[:1]):
            a == b
            a != b
            b == a
        toks = O.store_tokens(root.token_store)
        for a, b in zip(toks, toks[1:]):
            a == b
    elif what == 'hash':
        for t in O.store_tokens(root.token_store):
            hash(t)
        for m in all_models[:5]:
            try:
                hash(m)
            except TypeError:
                pass
    elif what == 'repr':
        for m in all_models + O.store_tokens(root.token_store):
            repr(m)
    elif what == 'copy':
        ms = idx.get(op.get('cls')) or all_models
        m = ms[op.get('mi', 0) % len(ms)]
        copy.deepcopy(m)
        toks = O.store_tokens(root.token_store)
        if toks:
            copy.deepcopy(toks[op.get('mi', 0) % len(toks)])
        for p, w in _wrappers(m)[:2]:
            if p.kind in ('list', 'clist'):
                copy.deepcopy(w)
    elif what == 'print':
        for m in all_models:
            O.print_text(m)
    elif what == 'tokens':
        for m in all_models:
            m.tokens
            m.first_token
            m.last_token
    elif what == 'children':
        for m in all_models:
            list(m.iter_children_formatted())
    elif what == 'claim':
        ms = idx.get(op.get('cls')) if op.get('cls') else None
        if not ms:
            name0 = op['op']
            if 'interleaving' in name0:
                ms = [m for m in all_models if any(p.kind == 'clist' for p in S.props_of(m))]
            elif name0 != 'auto':
                ms = [m for m in all_models if hasattr(m, 'claim_leading_comment')]
            else:
                ms = all_models
        if not ms:
            raise OPS.NotApplicable('no model')
        m = ms[op.get('mi', 0) % len(ms)]
        name = op['op']
        if name == 'auto':
            m.auto_claim_comments()
        elif name in ('claim_leading_comment', 'claim_trailing_comment'):
            if not hasattr(m, name):
                raise OPS.NotApplicable(name)
            try:
                getattr(m, name)(ignore_if_already_claimed=bool(op.get('ignore', True)))
            except ValueError:
                pass
        elif name in ('unclaim_leading_comment', 'unclaim_trailing_comment'):
            if not hasattr(m, name):
                raise OPS.NotApplicable(name)
            getattr(m, name)()
        else:
            lists = [p for p in S.props_of(m) if p.kind == 'clist']
            if not lists:
                raise OPS.NotApplicable('no list')
            w = getattr(m, lists[op.get('li', 0) % len(lists)].name)
            if name == 'claim_interleaving_comments':
                w.claim_interleaving_comments()
            elif name == 'unclaim_interleaving_comments':
                w.unclaim_interleaving_comments()
            elif name == 'unclaim_interleaving_subset':
                cs = [x for x in w if type(x).__name__ == 'BlockComment']
                w.unclaim_interleaving_comments(cs[:max(1, len(cs) // 2)] if cs else [])
            elif name == 'claim_interleaving_subset':
                un = w.unclaim_interleaving_comments()
                w.claim_interleaving_comments(list(un)[:max(1, len(un) // 2)] if un else [])
            else:
                raise OPS.NotApplicable(name)
    else:
        raise OPS.NotApplicable(str(what))


def pingpong_ops(g: Any, root: Any) -> list:
    """Attribution calls concentrated on one comment: the models directly above / below it and the lists around it, alternating claim and
    unclaim (sequences like claim-trailing, unclaim, claim-leading-of-the-next, unclaim, claim-trailing move placeholders around the comment)."""
    from vf.props import c14
    lines = c14.Lines(root)
    comments = [i for i, t in enumerate(lines.order.tokens) if type(t).__name__ == 'BlockComment']
    if not comments:
        return []
    ci = comments[g.n(0, len(comments) - 1)]
    first, last = lines.tok_line[ci], lines.tok_end_line[ci]
    idx = OPS.index_models(root)
    addr = {id(m): (cn, i) for cn, ms in idx.items() for i, m in enumerate(ms)}
    menu = []
    for m in c14.commentable(root):
        sp = lines.span_of(m)
        if sp is None or id(m) not in addr:
            continue
        cn, mi = addr[id(m)]
        if sp[1] == first - 1:
            menu += [{'cls': cn, 'mi': mi, 'op': 'claim_trailing_comment'}, {'cls': cn, 'mi': mi, 'op': 'unclaim_trailing_comment'}]
        if sp[0] == last + 1:
            menu += [{'cls': cn, 'mi': mi, 'op': 'claim_leading_comment'}, {'cls': cn, 'mi': mi, 'op': 'unclaim_leading_comment'}]
    for cn, ms in idx.items():
        for mi, m in enumerate(ms):
            sp = lines.span_of(m)
            if sp is None or not (sp[0] <= first <= sp[1] + 1 or cn == 'File'):
                continue
            for li, p in enumerate([p for p in S.props_of(m) if p.kind == 'clist']):
                menu += [{'cls': cn, 'mi': mi, 'op': 'claim_interleaving_comments', 'li': li}, {'cls': cn, 'mi': mi, 'op': 'unclaim_interleaving_comments', 'li': li}]
    if not menu:
        return []
    # a state-aware walk: when the comment has an owner, release it through that owner; when it has none, let a random candidate claim it
    target = lines.order.tokens[ci]
    ops = []
    for _ in range(g.n(4, 14)):
        holders, _x = c14.ownership(root)
        hs = holders.get(id(target), [])
        if hs and g.p(0.85):
            kind, desc = hs[0]
            want = {'leading': 'unclaim_leading_comment', 'trailing': 'unclaim_trailing_comment', 'item': 'unclaim_interleaving_comments'}[kind]
            cands = [m for m in menu if m['op'] == want and m['cls'] == desc[0]] or [m for m in menu if m['op'] == want]
        elif not hs and g.p(0.85):
            cands = [m for m in menu if m['op'].startswith('claim')]
        else:
            cands = menu
        if not cands:
            cands = menu
        op = {'f': 'read', 'what': 'claim', 'ignore': g.p(0.8), **cands[g.n(0, len(cands) - 1)]}
        ops.append(op)
        try:
            _act(root, OPS.index_models(root), op, set())
        except Exception:  # noqa: BLE001
            pass
    return ops


def _build_pingpong(tier: str):
    cfg = L.Cfg(max_dirs=3, comments=0.7, blank=0.15, hazard_text=0.02, exotic=0.02)

    def build(rnd: Any) -> dict:
        g = L.G(rnd, cfg)
        groups = []
        for _ in range(g.n(1, 3)):
            groups.append(g.directive(g.pick(['transaction', 'transaction', 'open', 'note', 'option', 'close']))['lines'])
            if g.p(0.4):
                groups.append(g.trivia() or [[]])
        chunks = L.merge_comments([c for c in (g.join_lines(x) for x in groups) if c])
        from vf.gen import store as GS
        claim = g.p(0.5)
        lf = 4 if g.p(0.35) else 1000   # small blocks: ranges re-spliced by the claims cross block boundaries
        case = {'dirs': chunks, 'ops': [], 'claim': claim, 'lf': lf}
        old = GS.set_lf(lf)
        try:
            root = common.parse_file(L.text_of(chunks), claim)
            case['ops'] = pingpong_ops(g, root)
        except Exception:  # noqa: BLE001
            pass
        finally:
            GS.restore_lf(old)
        return case
    return build


def _build(tier: str):
    cfg = L.Cfg(max_dirs=5 if tier == 'quick' else 10, comments=0.5, blank=0.3)

    def build(rnd: Any) -> dict:
        g = L.G(rnd, cfg)
        chunks = g.document()
        ops = []
        names = [h if h != 'ignored' else 'ignored_line' for h in L.G.HEADERS]
        clsnames = ['File', 'Transaction', 'Posting', 'MetaItem', 'Open', 'Close', 'Note', 'Balance', 'Custom', 'Price', 'Option', 'IgnoredLine',
                    'Document', 'Event', 'Query', 'Pad', 'Commodity', 'Include', 'Plugin', 'Pushtag', 'Poptag', 'Pushmeta', 'Popmeta']
        del names
        for _ in range(g.n(5, 25)):
            what = g.pick(['attrs', 'wrappers', 'eq', 'hash', 'repr', 'copy', 'print', 'tokens', 'children', 'claim', 'claim', 'claim', 'claim'])
            op = {'f': 'read', 'what': what}
            if what in ('copy', 'claim'):
                if g.p(0.3):
                    op['cls'] = g.pick(clsnames)
                op['mi'] = g.n(0, 30)
            if what == 'claim':
                op['op'] = g.pick(CLAIM_OPS)
                op['ignore'] = g.p(0.7)
                op['li'] = g.n(0, 1)
            ops.append(op)
        return {'dirs': chunks, 'ops': ops, 'claim': g.p(0.5), 'lf': 4 if g.p(0.35) else 1000}
    return build


EDIT_FAMS = ['val', 'val', 'opt', 'req', 'list', 'list', 'view', 'copyins', 'popins', 'arith', 'tok']
READS = ['attrs', 'wrappers', 'eq', 'repr', 'copy', 'print', 'tokens', 'children']


def _build_edited(tier: str):
    """Documents reached by edits, then reads: lazily built views and caches are first read after the edit."""
    cfg = L.Cfg(max_dirs=4 if tier == 'quick' else 8, comments=0.3)

    def build(rnd: Any) -> dict:
        g = L.G(rnd, cfg)
        claim = g.p(0.7)
        case = OPS.build_program(rnd, cfg, EDIT_FAMS, 5, lambda t: common.parse_file(t, claim), stick=0.5)
        out = []
        for op in case['ops']:
            # values that begin with a sign are legal list elements (the caller is responsible for what they mean next to a number)
            for d in list(op.get('donors') or []) + ([op['donor']] if isinstance(op.get('donor'), dict) else []):
                if op.get('prop') == 'raw_values' and d.get('k') in ('number_expr', 'amount') and g.p(0.6):
                    d['t'] = '-' + str(g.n(1, 99)) + (' USD' if d['k'] == 'amount' else '')
            out.append(op)
            if g.p(0.5):
                out.append({'f': 'read', 'what': g.pick(READS), 'mi': g.n(0, 30)})
        for _ in range(g.n(1, 3)):
            out.append({'f': 'read', 'what': g.pick(READS), 'mi': g.n(0, 30)})
        case['ops'] = out
        case['claim'] = claim
        case['lf'] = 1000
        return case
    return build


def _enum_custom():
    """Custom directives whose value list is edited through the raw list (sign-leading values next to numbers included), then each read."""
    import itertools
    heads = ['2000-01-01 custom "t" 100\n', '2000-01-01 custom "t" 100 "s"\n', '2000-01-01 custom "t" 1 USD\n', '2000-01-01 custom "t"\n', '2000-01-01 custom "t" (3)\n']
    donors = [{'k': 'number_expr', 't': '-25'}, {'k': 'number_expr', 't': '+25'}, {'k': 'amount', 't': '-25 USD'}, {'k': 'number_expr', 't': '25'},
              {'k': 'number_expr', 't': '(-25)'}, {'k': 'ESCAPED_STRING', 't': '"x"'}]
    for head, d1, d2, read, claim in itertools.product(heads, donors, [None] + donors[:3], READS, (True, False)):
        ops = [{'f': 'list', 'cls': 'Custom', 'mi': 0, 'prop': 'raw_values', 'op': 'append', 'donors': [d1]}]
        if d2 is not None:
            ops.append({'f': 'list', 'cls': 'Custom', 'mi': 0, 'prop': 'raw_values', 'op': 'insert', 'i': 0, 'donors': [d2]})
        ops.append({'f': 'read', 'what': read, 'mi': 0})
        yield {'dirs': [[['X', head]]], 'ops': ops, 'claim': claim, 'lf': 1000}


def jobs(tier: str) -> list[Job]:
    return [Job('programs', 'hyp', lambda: _build(tier), 2500 if tier == 'quick' else 60000),
            Job('reads-after-edits', 'hyp', lambda: _build_edited(tier), 2000 if tier == 'quick' else 60000),
            Job('custom-raw-edits-then-reads', 'enum', _enum_custom, exhaustive=True),
            Job('claim-pingpong', 'hyp', lambda: _build_pingpong(tier), 4000 if tier == 'quick' else 150000)]
