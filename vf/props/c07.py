"""C07 - the token store behaves exactly like a plain ordered sequence."""
from __future__ import annotations

import itertools
from typing import Any, Optional

from vf.gen import store as gs
from vf.run import Job, Result

ID = 'C07'
RULE = ('Histories of 1-30 (quick) / 1-120 (thorough) store operations (splice, insert_after/before, replace, remove, '
        'raw_text update, in-range permutation, refused insertions of tokens living in this or another store) on 0..12*LF '
        'initial tokens with load factor in {2,3,4,5,8} (thorough adds 10 and 1000 with >1000-token inserts), generated through '
        'Hypothesis (st.randoms); plus bounded-exhaustive enumeration of every single splice (all i<=j, |new| in {0,1,LF,3LF}) '
        'for LF in {2,3,4} and lengths 0..6*LF, and (thorough) every pair of splices for LF=2, length<=8. Oracle: a Python list. '
        'Non-trivial = the history contains an operation that spans >=2 blocks or changes the number of blocks (split/merge).')
ASSUMPTIONS = [
    'the load factor is the four module-level constants of token_store, patched per case as the repository\'s own tests do',
    'block counts (store._blocks) are read for classification only, never for the verdict',
]
SHRINK_LISTS = ('ops', 'init')
REQUIRED_CLASSES = ('multi-block-span', 'block-count-changed', 'refusal')


def _check_all(store: Any, model: list, step: gs.Step, full_iter: bool) -> Optional[tuple]:
    kind = step.kind
    got = list(store)
    if len(got) != len(model) or any(a is not b for a, b in zip(got, model)):
        return (f'order:{kind}', f'iteration order differs from the list after {step.op}: '
                f'store={[t.raw_text for t in got]!r} list={[t.raw_text for t in model]!r}')
    if len(store) != len(model):
        return (f'len:{kind}', f'len(store)={len(store)} list={len(model)} after {step.op}')
    first, last = store.get_first(), store.get_last()
    if (first if model else None) is not (model[0] if model else None) and not (not model and not first):
        return (f'first:{kind}', f'get_first wrong after {step.op}')
    if model and last is not model[-1]:
        return (f'last:{kind}', f'get_last wrong after {step.op}')
    if not model and (first or last):
        return (f'first:{kind}', f'get_first/get_last not None on empty store after {step.op}')
    for i, t in enumerate(model):
        h = t.store_handle
        if h is None or h.block.store is not store:
            return (f'handle-store:{kind}', f'token #{i} does not know its store after {step.op}')
        try:
            idx = store.get_index(t)
            nxt = store.get_next(t)
            prv = store.get_prev(t)
        except Exception as e:  # noqa: BLE001
            return (f'raised-query:{kind}:{type(e).__name__}', f'query on token #{i} raised {e!r} after {step.op}')
        if idx != i:
            return (f'index:{kind}', f'get_index(token #{i})={idx} after {step.op}')
        if nxt is not (model[i + 1] if i + 1 < len(model) else None):
            return (f'next:{kind}', f'get_next(token #{i}) wrong after {step.op}')
        if prv is not (model[i - 1] if i else None):
            return (f'prev:{kind}', f'get_prev(token #{i}) wrong after {step.op}')
    for t in step.removed:
        if t.store_handle is not None and not any(t is m for m in model):
            return (f'handle-removed:{kind}', f'removed token still attached after {step.op}')
    n = len(model)
    if n:
        if full_iter or n <= 10:
            pairs = [(a, b) for a in range(n) for b in range(a, n)]
        else:
            pairs = [(0, n - 1), (0, 0), (n - 1, n - 1), (n // 3, 2 * n // 3), (1, n - 2) if n > 2 else (0, 0),
                     (n // 2, n // 2), (n // 2, n - 1), (0, n // 2)]
        for a, b in pairs:
            try:
                seg = list(store.iter(model[a], model[b]))
            except Exception as e:  # noqa: BLE001
                return (f'raised-query:{kind}:{type(e).__name__}', f'iter({a},{b}) raised {e!r} after {step.op}')
            if len(seg) != b - a + 1 or any(x is not y for x, y in zip(seg, model[a:b + 1])):
                return (f'iter:{kind}', f'iter(#{a},#{b}) differs from list slice after {step.op}')
    return None


def run_case(case: dict) -> Result:
    res = Result()
    classes = set()
    full_iter = bool(case.get('full_iter'))

    def after(store: Any, model: list, step: gs.Step) -> Optional[tuple]:
        if step.span_blocks >= 2:
            classes.add('multi-block-span')
        if step.blocks_after != step.blocks_before:
            classes.add('block-count-changed')
        if step.must_refuse:
            classes.add('refusal')
        if step.kind == 'update':
            classes.add('update')
        return _check_all(store, model, step, full_iter)

    r = gs.replay(case, after)
    if r:
        res.bad(*r)
    res.classes = sorted(classes)
    res.nontrivial = bool(classes & {'multi-block-span', 'block-count-changed'})
    return res


def _enum_single():
    for lf in (2, 3, 4):
        for n in range(0, 6 * lf + 1):
            init = [gs.TEXTS[(i * 7 + n) % len(gs.TEXTS)] for i in range(n)]
            for a in range(n + 1):
                for b in range(a, n + 1):
                    for k in (0, 1, lf, 3 * lf):
                        yield {'lf': lf, 'init': init, 'full_iter': True,
                               'ops': [{'op': 'splice', 'a': a, 'b': b - a, 'new': ['n'] * k}]}


def _enum_pairs(maxn: int):
    lf = 2
    for n in range(0, maxn + 1):
        init = ['t'] * n
        for a in range(n + 1):
            for b in range(a, n + 1):
                for k in (0, 1, lf, 3 * lf):
                    n2 = n - (b - a) + k
                    for a2 in range(n2 + 1):
                        for b2 in range(a2, n2 + 1):
                            for k2 in (0, 1, 3 * lf):
                                yield {'lf': lf, 'init': init, 'full_iter': True, 'ops': [
                                    {'op': 'splice', 'a': a, 'b': b - a, 'new': ['n'] * k},
                                    {'op': 'splice', 'a': a2, 'b': b2 - a2, 'new': ['m'] * k2}]}


def jobs(tier: str) -> list[Job]:
    if tier == 'quick':
        return [
            Job('histories', 'hyp', lambda: (lambda rnd: gs.build_history(rnd, 30)), 6000),
            Job('enum-single-splice', 'enum', _enum_single, exhaustive=True),
        ]
    return [
        Job('histories', 'hyp', lambda: (lambda rnd: gs.build_history(rnd, 120, big=True)), 300000),
        Job('enum-single-splice', 'enum', _enum_single, exhaustive=True),
        Job('enum-splice-pairs', 'enum', lambda: _enum_pairs(8), exhaustive=True),
    ]
