"""Shared helpers for the program-running properties."""
from __future__ import annotations

from typing import Any, Optional

import lark

from autobean_refactor import models, parser as parser_lib

from vf.gen import ledger as L

_PARSER = None


def parser() -> Any:
    global _PARSER
    if _PARSER is None:
        _PARSER = parser_lib.Parser()
    return _PARSER


def parse_file(text: str, claim: bool = True) -> Any:
    return parser().parse(text, models.File, auto_claim_comments=claim)


def parse_case(case: dict, claim: bool = True) -> Optional[Any]:
    """Parses the document of a case; None when the text is not accepted (discard)."""
    try:
        return parse_file(L.text_of(case['dirs']), claim)
    except (lark.exceptions.LarkError, ValueError):
        return None


REFUSAL = (ValueError, IndexError, KeyError, TypeError)
EDIT_FAMILIES = ['tok', 'opt', 'req', 'val', 'list', 'view', 'space', 'claim', 'copyins', 'popins', 'arith']
