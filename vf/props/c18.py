"""C18 - children created from values are indented by the documented rule."""
from __future__ import annotations

import decimal
from typing import Any, Optional

from autobean_refactor import models
from autobean_refactor.models.block_comment import BlockComment

from vf.gen import donors as D, ledger as L, ops as OPS
from vf.obs import core as O
from vf.props import common
from vf.run import Job, Result

ID = 'C18'
RULE = ('Parents: every entry kind and postings, parsed from generated texts whose existing meta layout is one of none / uniform indent of '
        'width 1-8 in spaces or tabs / mixed indents, with posting indents over blanks; indent_by over [ \\t]{0,8} set after parsing or at construction; '
        'routes: meta[key] = value (in a quarter of the cases on a deep copy of the parent), raw_meta.append(MetaItem.from_value(indent=X)), raw_meta_with_comments.append(BlockComment.from_value(indent=X)), '
        'leading_comment / trailing_comment setters on postings and meta items (in half the cases the created leading comment is then re-indented through its raw_text and its text set again through the owner), from_value(meta={...}) for entries and postings, and parents built with '
        'every constructor that accepts indent_by (found by reflection; arguments planned as in C15), optionally with their meta cleared, then meta[key] = value. Oracle: a meta item '
        'created from a plain value takes the indent its existing siblings share, or parent indent + indent_by when there are none (any existing '
        'sibling\'s indent when they disagree); a comment created by an indented owner\'s setter has the owner\'s indent; an inserted raw node keeps its '
        'indent verbatim; every pre-existing indent token and comment indent is unchanged, including the lines of a comment when its text is set again. Non-trivial = indent_by != four spaces, or the parent is a '
        'posting, or the existing items use a non-default indent.')
ASSUMPTIONS = ['with disagreeing sibling indents any sibling\'s indent is accepted (docs and code differ on first vs last)']
SHRINK_LISTS = ('ops',)
REQUIRED_CLASSES = ('parent-copied', 'meta-view-used-before', 'parent-reindented', 'route:map-set', 'map-set:update', 'map-set:setdefault', 'route:raw-append', 'route:comment-append', 'route:comment-setter', 'comment-reset', 'route:from_value', 'route:constructed', 'constructed:from_value', 'constructed:from_children', 'constructed:cleared', 'parent:posting', 'parent:entry',
                    'layout:none', 'layout:uniform', 'layout:mixed')

ENTRY_KINDS = sorted(L.G.ENTRY_KINDS)


def existing_indents(root: Any) -> list:
    out = []
    for t in O.store_tokens(root.token_store):
        n = type(t).__name__
        if n == 'Indent':
            out.append((id(t), t.raw_text))
        elif n == 'BlockComment':
            out.append((id(t), t.indent))
    return out


def run_case(case: dict) -> Result:
    res = Result()
    classes = set()
    route = case['route']
    iby = case.get('indent_by')
    if route == 'from_value':
        return _from_value(case, res)
    if route == 'constructed':
        return _constructed(case, res)
    root = common.parse_case(case)
    if root is None:
        return Result(discard=True)
    idx = OPS.index_models(root)
    tgt = case['target']
    ms = idx.get(tgt['cls'])
    if not ms:
        return Result(discard=True)
    P = ms[tgt.get('mi', 0) % len(ms)]
    is_posting = type(P).__name__ == 'Posting'
    classes.add('parent:posting' if is_posting else 'parent:entry')
    # history before the insertion: the meta view may have been used already, and the parent's own indent / indent_by changed afterwards
    if case.get('prime_meta') and hasattr(P, 'meta'):
        len(P.meta)
        list(P.raw_meta)
        classes.add('meta-view-used-before')
    if case.get('reindent') is not None and is_posting:
        if case.get('reindent_raw'):
            P.raw_indent = type(P.raw_indent).from_value(case['reindent'])
        else:
            P.indent = case['reindent']
        classes.add('parent-reindented')
    if iby is not None and hasattr(P, 'indent_by'):
        P.indent_by = iby
    if case.get('via_copy') and route == 'map-set':
        # the library's own advice for re-using a node: work on a deep copy - it carries the parent's indent and indent_by with it
        import copy
        by0 = getattr(P, 'indent_by', None)
        P = copy.deepcopy(P)
        root = P
        classes.add('parent-copied')
        if getattr(P, 'indent_by', None) != by0:
            res.bad('copy-lost-indent_by', f'a deep copy of a {type(P).__name__} with indent_by {by0!r} has indent_by {getattr(P, "indent_by", None)!r}: its new '
                    f'children would not follow the documented rule')
            res.classes = sorted(classes)
            return res
    before = existing_indents(root)
    items = [x for x in P.raw_meta_with_comments if type(x).__name__ == 'MetaItem'] if hasattr(P, 'raw_meta_with_comments') else []
    sib = [x.indent for x in items]
    layout = 'none' if not sib else 'uniform' if len(set(sib)) == 1 else 'mixed'
    classes.add('layout:' + layout)
    parent_indent = P.indent if is_posting else ''
    eff_by = P.indent_by if hasattr(P, 'indent_by') else '    '
    what = f'{route} on {type(P).__name__} (parent indent {parent_indent!r}, indent_by {eff_by!r}, sibling indents {sib!r})'
    new_item = None
    try:
        if route == 'map-set':
            key = case['key']
            if any(x.key == key for x in items):
                return Result(discard=True)
            how = case.get('how', 'setitem')
            classes.add('map-set:' + how)
            if how == 'update':
                P.meta.update({key: D.decode(case['v'])})
            elif how == 'update-kw' and key.isidentifier():
                P.meta.update(**{key: D.decode(case['v'])})
            elif how == 'setdefault':
                P.meta.setdefault(key, D.decode(case['v']))
            else:
                P.meta[key] = D.decode(case['v'])
            new_item = [x for x in P.raw_meta_with_comments if type(x).__name__ == 'MetaItem' and x.key == key][-1]
            got = new_item.indent
            allowed = set(sib) if sib else {parent_indent + eff_by}
            if got not in allowed:
                res.bad(f'created-meta-indent:{layout}:{"posting" if is_posting else "entry"}', f'{what}: new item has indent {got!r}, expected {sorted(allowed)!r}')
        elif route == 'raw-append':
            x = case['x']
            node = models.MetaItem.from_value(case['key'], D.decode(case['v']), indent=x)
            P.raw_meta.append(node)
            if node.indent != x or node.raw_indent.raw_text != x:
                res.bad('raw-indent-changed:meta', f'{what}: appended raw MetaItem with indent {x!r} now has {node.indent!r}')
        elif route == 'comment-append':
            x = case['x']
            node = BlockComment.from_value(case['text'], indent=x)
            P.raw_meta_with_comments.append(node)
            if node.indent != x or not all(line.startswith(x + ';') for line in node.raw_text.split('\n')):
                res.bad('raw-indent-changed:comment', f'{what}: appended raw comment with indent {x!r} now prints {node.raw_text!r}')
        elif route == 'comment-setter':
            owner = P
            if case.get('on_meta') and items:
                owner = items[case.get('oi', 0) % len(items)]
            if type(owner).__name__ not in ('Posting', 'MetaItem'):
                return Result(discard=True)
            attr = case['attr']
            if getattr(owner, 'raw_' + attr) is not None:
                return Result(discard=True)
            setattr(owner, attr, case['text'])
            c = getattr(owner, 'raw_' + attr)
            if c is None or c.indent != owner.indent:
                res.bad(f'setter-comment-indent:{type(owner).__name__}.{attr}', f'{what}: {type(owner).__name__}.{attr} = {case["text"]!r} created a comment with indent '
                        f'{getattr(c, "indent", None)!r}, the owner\'s indent is {owner.indent!r}')
            elif not all(line.startswith(owner.indent + ';') for line in c.raw_text.split('\n')):
                res.bad(f'setter-comment-indent:{type(owner).__name__}.{attr}', f'{what}: created comment prints {c.raw_text!r}')
            elif case.get('reset') and attr == 'leading_comment':
                # the comment is then re-indented verbatim through its raw text (a raw edit keeps its indent as is) and its text changed through
                # the owner's plain-value setter again: the now existing comment lines keep the indentation they were given
                x = case['reset']['x']
                c.raw_text = '\n'.join(x + line.lstrip(' \t') for line in c.raw_text.split('\n'))
                classes.add('comment-reset')
                if c.indent != x:
                    res.bad('raw-indent-changed:comment-raw-text', f'{what}: the comment re-indented through raw_text to {x!r} reports indent {c.indent!r}')
                else:
                    setattr(owner, attr, case['reset']['text'])
                    c2 = getattr(owner, 'raw_' + attr)
                    if c2 is None or not all(line.startswith(x + ';') for line in c2.raw_text.split('\n')):
                        res.bad('existing-indent-changed:comment-reset', f'{what}: {type(owner).__name__}.{attr} = {case["reset"]["text"]!r} on an existing comment '
                                f'indented {x!r} now prints {getattr(c2, "raw_text", None)!r}')
        else:
            return Result(discard=True)
    except common.REFUSAL:
        return Result(discard=True)
    classes.add('route:' + route)
    after = dict(existing_indents(root))
    for tid, ind in before:
        if tid in after and after[tid] != ind:
            res.bad('existing-indent-changed', f'{what}: an existing line\'s indentation changed from {ind!r} to {after[tid]!r}')
            break
    res.classes = sorted(classes)
    res.nontrivial = eff_by != '    ' or is_posting or (bool(sib) and set(sib) != {'    '})
    return res


def _from_value(case: dict, res: Result) -> Result:
    import datetime
    iby = case.get('indent_by') if case.get('indent_by') is not None else '    '
    meta = {k: D.decode(v) for k, v in case['meta']}
    kind = case['kind']
    d = datetime.date(2000, 1, 1)
    classes = {'route:from_value'}
    try:
        if kind == 'posting':
            ind = case['x']
            m = models.Posting.from_value('Assets:A', decimal.Decimal(1), 'USD', indent=ind, meta=meta, indent_by=iby)
            expect = ind + iby
            classes.add('parent:posting')
        else:
            classes.add('parent:entry')
            expect = iby
            if kind == 'open':
                m = models.Open.from_value(d, 'Assets:A', (), meta=meta, indent_by=iby)
            elif kind == 'close':
                m = models.Close.from_value(d, 'Assets:A', meta=meta, indent_by=iby)
            elif kind == 'transaction':
                m = models.Transaction.from_value(d, None, 'n', [], meta=meta, indent_by=iby)
            elif kind == 'note':
                m = models.Note.from_value(d, 'Assets:A', 'c', meta=meta, indent_by=iby)
            elif kind == 'balance':
                m = models.Balance.from_value(d, 'Assets:A', decimal.Decimal(1), None, 'USD', meta=meta, indent_by=iby)
            else:
                m = models.Commodity.from_value(d, 'USD', meta=meta, indent_by=iby)
    except Exception as e:  # noqa: BLE001
        return res.bad(f'from_value-raised:{kind}:{type(e).__name__}', f'{kind}.from_value(meta={case["meta"]}, indent_by={iby!r}) raised {e!r}')
    got = [x.indent for x in m.raw_meta]
    if any(g != expect for g in got):
        res.bad(f'from_value-indent:{kind}', f'{kind}.from_value(meta=..., indent_by={iby!r}): meta indents {got!r}, expected {expect!r}')
    res.classes = sorted(classes)
    res.nontrivial = iby != '    ' or kind == 'posting'
    return res


def constructible() -> list:
    """(class name, constructor name) for every public constructor that accepts indent_by (found by reflection)."""
    import inspect
    from vf.props import c15
    out = []
    for cname in c15.CLASSES:
        for how in ('from_value', 'from_children'):
            fn = getattr(getattr(models, cname), how, None)
            if fn is not None and 'indent_by' in inspect.signature(fn).parameters:
                out.append((cname, how))
    return out


def _constructed(case: dict, res: Result) -> Result:
    """indent_by given at construction (from_value / from_children) is the parent's indent_by for everything created later."""
    from vf.props import c15
    spec = case['spec']
    cname, how = spec['cls'], spec['how']
    want = spec['args']['indent_by']['v'] if 'indent_by' in spec['args'] else '    '
    classes = {'route:constructed', f'constructed:{how}', 'parent:posting' if cname == 'Posting' else 'parent:entry'}
    try:
        m = c15.realise(spec)
    except Exception:  # noqa: BLE001 - constructor behaviour is C15's
        return Result(discard=True)
    what = f'{cname}.{how}(indent_by={want!r}, ...) [{O.print_text(m)!r}]'
    if m.indent_by != want:
        res.bad(f'constructed-indent_by:{cname}.{how}', f'{what}: the built model reports indent_by {m.indent_by!r}')
    try:
        if case.get('clear') == 'view':
            m.meta.clear()
        elif case.get('clear') == 'raw':
            m.raw_meta_with_comments.clear()
        if case.get('clear'):
            classes.add('constructed:cleared')
        before = existing_indents(m)
        sib = [x.indent for x in m.raw_meta]
        key = case['key']
        if any(x.key == key for x in m.raw_meta):
            return Result(discard=True)
        m.meta[key] = D.decode(case['v'])
    except common.REFUSAL:
        return Result(discard=True)
    new_item = [x for x in m.raw_meta if x.key == key][-1]
    parent_indent = m.indent if cname == 'Posting' else ''
    allowed = set(sib) if sib else {parent_indent + want}
    layout = 'none' if not sib else 'uniform' if len(set(sib)) == 1 else 'mixed'
    classes.add('layout:' + layout)
    if new_item.indent not in allowed:
        res.bad(f'created-meta-indent:constructed:{layout}:{cname}.{how}', f'{what}, sibling indents {sib!r}: meta[{key!r}] = ... created an item with indent '
                f'{new_item.indent!r}, expected {sorted(allowed)!r}')
    after = dict(existing_indents(m))
    for tid, ind in before:
        if tid in after and after[tid] != ind:
            res.bad('existing-indent-changed', f'{what}: an existing line\'s indentation changed from {ind!r} to {after[tid]!r}')
            break
    res.classes = sorted(classes)
    res.nontrivial = want != '    ' or cname == 'Posting'
    return res


def _build(tier: str):
    cfg = L.Cfg(comments=0.15, hazard_text=0.05)

    def build(rnd: Any) -> dict:
        g = L.G(rnd, cfg)
        route = g.pick(['map-set', 'map-set', 'raw-append', 'comment-append', 'comment-setter', 'from_value', 'constructed'])
        iby = None if g.p(0.3) else g.chars(' \t', 0, 8)
        blanks = lambda: g.pick(['  ', '    ', '\t', ' ', ' \t ', g.chars(' \t', 1, 8)])  # noqa: E731
        if route == 'constructed':
            from vf.props import c15
            cname, how = g.pick(constructible())
            spec = c15.plan(g, cname, how, indent=blanks() if cname in c15.INDENTED else None)
            if iby is not None:
                spec['args']['indent_by'] = {'vt': 'str', 'v': iby}
            else:
                spec['args'].pop('indent_by', None)
            if g.p(0.5):
                spec['args'].pop('meta', None)
            return {'route': route, 'spec': spec, 'clear': g.pick([None, None, 'view', 'raw']), 'key': g.meta_key()[1][:-1] + 'x', 'v': D.value('meta_value', g)}
        if route == 'from_value':
            meta = [[g.meta_key()[1][:-1] + str(i), D.value('meta_value', g)] for i in range(g.n(1, 3))]
            return {'route': route, 'indent_by': iby, 'kind': g.pick(['posting', 'posting', 'open', 'close', 'transaction', 'note', 'balance', 'commodity']),
                    'x': blanks(), 'meta': meta}
        posting = g.p(0.5)
        layout = g.pick(['none', 'uniform', 'uniform', 'mixed'])
        k = 0 if layout == 'none' else g.n(1, 3) if layout == 'uniform' else g.n(2, 3)
        uni = blanks()

        def meta_lines(base: str) -> list:
            out = []
            for i in range(k):
                ind = base + uni if layout == 'uniform' else base + blanks()
                out.append([['INDENT', ind], ['META_KEY', 'key%d:' % i], ['WHITESPACE', ' '], ['NUMBER', str(i)]])
            return out
        if posting:
            pind = blanks()
            lines = [g.header('transaction'), g.posting_line(['INDENT', pind]), *meta_lines(pind), g.posting_line()]
            target = {'cls': 'Posting', 'mi': 0}
        else:
            kind = g.pick(ENTRY_KINDS)
            lines = [g.header(kind), *meta_lines('')]
            if kind == 'transaction':
                lines.append(g.posting_line())
            target = {'cls': models.TREE_MODELS[kind].__name__, 'mi': 0}
        chunk = g.join_lines(lines)
        case = {'dirs': [chunk], 'target': target, 'route': route, 'indent_by': iby, 'key': g.meta_key()[1][:-1] + 'x', 'v': D.value('meta_value', g),
                'x': blanks() if g.p(0.8) else '', 'text': D.comment_value(g), 'attr': g.pick(['leading_comment', 'trailing_comment']),
                'on_meta': g.p(0.5), 'oi': g.n(0, 3), 'prime_meta': g.p(0.5), 'reindent': blanks() if g.p(0.4) else None, 'reindent_raw': g.p(0.3),
                'how': g.pick(['setitem', 'setitem', 'update', 'update-kw', 'setdefault'])}
        case['via_copy'] = g.p(0.25)
        if g.p(0.5):
            case['reset'] = {'x': blanks() if g.p(0.8) else '', 'text': D.comment_value(g)}
        if route == 'comment-setter' and not posting and k == 0:
            case['route'] = 'map-set'
        return case
    return build


def _sweep_constructed():
    """Every constructor accepting indent_by x indent_by in a fixed pool (and omitted) x meta given or not x cleared or not."""
    import itertools
    import random
    from vf.props import c15
    g = L.G(random.Random(18), L.Cfg())
    for (cname, how), iby, with_meta, clear in itertools.product(constructible(), (None, '', ' ', '  ', '\t', ' \t', '        '), (False, True), (None, 'view', 'raw')):
        present = {'meta'} if with_meta else set()
        spec = c15.plan(g, cname, how, present=present, indent='  ' if cname in c15.INDENTED else None)
        if iby is not None:
            spec['args']['indent_by'] = {'vt': 'str', 'v': iby}
        yield {'route': 'constructed', 'spec': spec, 'clear': clear, 'key': 'zzx', 'v': {'vt': 'str', 'v': 'new'}}


def jobs(tier: str) -> list[Job]:
    return [Job('indent-routes', 'hyp', lambda: _build(tier), 3000 if tier == 'quick' else 100000),
            Job('constructed-sweep', 'enum', _sweep_constructed, exhaustive=True)]
