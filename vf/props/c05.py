"""C05 - after any edit history the tree is still a valid syntax tree of its tokens."""
from __future__ import annotations

from typing import Any

from autobean_refactor.models import base

from vf.gen import ledger as L, ops as OPS, store as GS, sweeps
from vf.obs import core as O
from vf.props import common
from vf.run import Job, Result

ID = 'C05'
RULE = ('(In 30% of the generated programs the token store works with blocks of 4 instead of 1000 tokens, so that the edits split and merge blocks, the first one included, in small documents.) A generated ledger (G1) followed by a state-aware program of 1-10 (quick) / 1-30 (thorough) edits drawn from every family '
        '(token value, optional / required / custom-optional slot, value-level property, every MutableSequence operation on raw lists, '
        'filtered and string views with every index class, meta mapping operations, spacing, comment claim/unclaim/auto-claim, '
        'deep-copy-and-insert, pop-and-reinsert, in-place arithmetic), with 60% of later operations aimed at nodes that an earlier '
        'operation inserted, moved or copied. After every step the structural invariants (one store, ordered first/last, nested '
        'disjoint ordered children, every significant token owned by exactly one leaf, every leaf in the store) are checked on the '
        'root and on every node returned by pop(). Non-trivial = history of >= 2 applied operations in which a later one goes through '
        'a node inserted/moved/copied by an earlier one.')
RULE = RULE + ' Round 8: block-sessions job - in-memory editing sessions of 3-40 (80) steps (tags appended, directives popped, appended, inserted in bulk) on 3-30 one-line transactions with store blocks of 2-8 tokens; invariants after every step and on every popped directive.'
ASSUMPTIONS = [
    'histories are op lists with selectors reduced modulo the candidates present (a data encoding of a rule-based state machine), '
    'generated state-aware so that every drawn operation is applicable when drawn',
    'a history is not continued after a refused or crashed operation (the state after a refusal is C19\'s subject)',
]
SHRINK_LISTS = ('ops', 'dirs', 'session')
REQUIRED_CLASSES = ('session', 'lf:4', 'through-inserted', 'fam:list', 'fam:view', 'fam:opt', 'fam:val', 'fam:popins', 'fam:copyins', 'popped-node')


def run_case(case: dict) -> Result:
    # small store blocks in a share of the cases: the edits then split and merge blocks (the first block included) in small documents
    old = GS.set_lf(int(case.get('lf', 1000)))
    try:
        res = _run_case(case)
        if not res.discard:
            res.classes = sorted(set(res.classes) | {'lf:%d' % int(case.get('lf', 1000))})
        return res
    finally:
        GS.restore_lf(old)


def _run_session(case: dict) -> Result:
    """A longer editing session on one ledger of one-line transactions (C16's session generator, in memory): tags appended, directives popped -
    mostly at the very beginning -, directives appended or inserted in bulk, with store blocks of 2-8 tokens, so that blocks grow to 1.5 x, shrink
    to half, merge and re-balance; the invariants are checked on the document after every step and on every popped directive."""
    import datetime
    from autobean_refactor import models
    res = Result()
    root = common.parse_file(''.join('2000-01-%02d * "n%d"\n' % (i % 28 + 1, i) for i in range(case['n'])))
    classes = {'session'}
    for step, op in enumerate(case['session']):
        n = len(root.raw_directives)
        popped = None
        try:
            if op[0] == 'tags' and n:
                d = root.raw_directives[op[1] % n]
                if hasattr(d, 'tags'):
                    d.tags.extend('t%d-%d' % (op[1], k) for k in range(op[2]))
            elif op[0] == 'del' and n:
                popped = root.raw_directives.pop(op[1] % n)
            elif op[0] == 'app':
                root.raw_directives.append(models.Close.from_value(datetime.date(2001, 2, 3), 'Assets:New%d' % op[1]))
            elif op[0] == 'ins':
                i = op[1] % (n + 1)
                root.raw_directives_with_comments[i:i] = [models.Close.from_value(datetime.date(2001, 2, 3), 'Assets:Ins%d' % k) for k in range(op[2])]
            else:
                continue
        except Exception as e:  # noqa: BLE001
            res.bad(f'edit-crashed:session:{op[0]}:{type(e).__name__}', f'step {step} {op} of the session {case["session"][:step + 1]} (n={case["n"]}, blocks of {case["lf"]}) raised {e!r}')
            break
        bad = O.invariants(root)
        if bad:
            res.bad(f'{bad[0][0]}:session:{op[0]}', f'after step {step} {op} of the session {case["session"][:step + 1]} (n={case["n"]}, blocks of {case["lf"]}): {bad[:3]}')
            break
        if popped is not None:
            classes.add('popped-node')
            pb = O.invariants(popped, whole_store=True, check_comments=False)
            if pb:
                res.bad(f'popped:{pb[0][0]}:session', f'the directive popped at step {step} {op}: {pb[:3]}')
                break
    res.classes = sorted(classes)
    res.nontrivial = len(case['session']) >= 5
    return res


def _build_session(tier: str):
    def build(rnd: Any) -> dict:
        lf = rnd.choice([2, 3, 4, 4, 5, 8])
        ops = []
        for _ in range(rnd.randint(3, 40 if tier == 'quick' else 80)):
            r = rnd.random()
            if r < 0.35:
                ops.append(['tags', rnd.randint(0, 2000), rnd.randint(1, 2 * lf)])
            elif r < 0.75:
                where = rnd.random()
                ops.append(['del', 0 if where < 0.3 else -1 if where < 0.4 else rnd.randint(0, 2000)])
            elif r < 0.85:
                ops.append(['app', rnd.randint(0, 99)])
            else:
                ops.append(['ins', rnd.randint(0, 2000), rnd.randint(1, 4)])
        return {'session': ops, 'n': rnd.randint(3, 30), 'lf': lf}
    return build


def _run_case(case: dict) -> Result:
    if case.get('session') is not None:
        return _run_session(case)
    res = Result()
    root = common.parse_case(case)
    if root is None:
        return Result(discard=True)
    classes = set()
    bad0 = O.invariants(root)
    if bad0:
        return res.bad(f'{bad0[0][0]}:after-parse', f'the freshly parsed document is not a valid tree: {bad0[:3]} ; text {O.store_text(root.token_store)!r}')
    hot: set[int] = set()
    hot_tokens: set[int] = set()
    applied = 0
    through = False
    for op in case['ops']:
        try:
            a = OPS.resolve(root, op)
        except OPS.NotApplicable:
            continue
        if a.P is not None and (id(a.P) in hot or (a.family == 'tok' and id(a.P) in hot_tokens)):
            through = True
        popped = None
        try:
            popped = a.run()
        except common.REFUSAL:
            classes.add('refused')
            break
        except ArithmeticError:
            # a value that does not evaluate (x / 0) was read by a read-and-remove operation: a legitimate exception; the tree is still checked below
            classes.add('unevaluable-value')
            bad0 = O.invariants(root)
            if bad0:
                res.bad(f'invariant-after-arithmetic-error:{bad0[0][0]}:{a.key()}', f'{op} raised an arithmetic error and left {bad0[:2]}')
            break
        except Exception as e:  # noqa: BLE001
            res.bad(f'edit-crashed:{a.key()}:{type(e).__name__}', f'{op} raised {e!r}')
            break
        applied += 1
        classes.add('fam:' + a.family)
        for x in a.inserted:
            hot.update(id(m) for m, _ in O.walk(x) if isinstance(m, base.RawTreeModel))
            hot_tokens.update(id(m) for m, _ in O.walk(x) if isinstance(m, base.RawTokenModel))
        if a.family == 'tok' and through:
            # end-to-end witness: an edit through a node that an earlier operation placed must show in the printed document
            if a.P.raw_text not in O.print_text(root) or O.Order(root.token_store).ord(a.P) is None:
                res.bad(f'edit-through-inserted-node-lost:{a.key()}', f'{op}: the edited token {a.P.raw_text!r} is not part of the printed document')
                break
        bad = O.invariants(root)
        if bad:
            res.bad(f'{bad[0][0]}:{a.key()}', f'after {op}: {bad[:3]} ; document now {O.store_text(root.token_store)!r}')
            break
        nodes = []
        if a.family in ('list', 'view') and a.op.get('op') in ('pop', 'pop_last') and isinstance(popped, base.RawModel):
            nodes.append(popped)
        if a.family == 'map' and a.op.get('op') in ('pop', 'pop_default') and isinstance(popped, base.RawModel):
            nodes.append(popped)
        for node in nodes:
            classes.add('popped-node')
            pb = O.invariants(node, whole_store=True, check_comments=False)
            if pb:
                res.bad(f'popped:{pb[0][0]}:{a.key()}', f'node returned by {op}: {pb[:3]}')
                break
        if res.violations:
            break
    if through:
        classes.add('through-inserted')
    res.classes = sorted(classes)
    res.nontrivial = applied >= 2 and through
    return res


def _build(tier: str):
    cfg = L.Cfg(max_dirs=4 if tier == 'quick' else 8)
    n = 10 if tier == 'quick' else 30

    def build(rnd: Any) -> dict:
        lf = 4 if rnd.random() < 0.3 else 1000
        old = GS.set_lf(lf)
        try:
            case = OPS.build_program(rnd, cfg, common.EDIT_FAMILIES, n, common.parse_file, stick=0.5)
        finally:
            GS.restore_lf(old)
        case['lf'] = lf
        return case
    return build


def _build_juggle(tier: str):
    """Standalone comments inserted into body lists, then state-aware claim / unclaim walks between the neighbouring lists and models:
    placeholders of sibling lists are shifted around the comments by every claim."""
    from vf.props import c04
    cfg = L.Cfg(max_dirs=2, comments=0.5, hazard_text=0.02, exotic=0.02)

    def build(rnd: Any) -> dict:
        g = L.G(rnd, cfg)
        groups = [g.directive(g.pick(['transaction', 'transaction', 'transaction', 'open', 'note']))['lines'] for _ in range(g.n(1, 2))]
        chunks = L.merge_comments([c for c in (g.join_lines(x) for x in groups) if c])
        case = {'dirs': chunks, 'ops': []}
        try:
            root = common.parse_file(L.text_of(chunks))
        except Exception:  # noqa: BLE001
            return case
        for _ in range(g.n(1, 3)):
            cands = OPS.candidates(root, {'clist'})
            cands = [c for c in cands if c[2] != 'File'] or cands
            if not cands:
                break
            m, p, cname, mi = cands[g.n(0, len(cands) - 1)]
            kind = 'BLOCK_COMMENT' if cname == 'File' else 'BLOCK_COMMENT_IND'
            n = len(getattr(m, p.name))
            op = {'f': 'list', 'cls': cname, 'mi': mi, 'prop': p.name, 'op': 'insert', 'i': g.pick([0, 0, n, n // 2]),
                  'donors': [OPS.D.make(kind, g, indent=OPS.sibling_indent(m, p))]}
            case['ops'].append(op)
            try:
                OPS.resolve(root, op).run()
            except Exception:  # noqa: BLE001
                case['ops'].pop()
        for _ in range(g.n(1, 2)):
            try:
                case['ops'] += c04.pingpong_ops(g, root)
            except Exception:  # noqa: BLE001
                break
        return case
    return build


def jobs(tier: str) -> list[Job]:
    return [Job('histories', 'hyp', lambda: _build(tier), 2500 if tier == 'quick' else 120000),
            Job('comment-juggling', 'hyp', lambda: _build_juggle(tier), 1500 if tier == 'quick' else 60000),
            Job('block-sessions', 'hyp', lambda: _build_session(tier), 1500 if tier == 'quick' else 40000),
            Job('list-sweep', 'enum', sweeps.list_sweep, exhaustive=True),
            Job('slot-sweep', 'enum', sweeps.slot_sweep, exhaustive=True),
            Job('insert-then-edit', 'enum', sweeps.insert_then_edit, exhaustive=True)]
