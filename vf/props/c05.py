"""C05 - after any edit history the tree is still a valid syntax tree of its tokens."""
from __future__ import annotations

from typing import Any

from autobean_refactor.models import base

from vf.gen import ledger as L, ops as OPS, store as GS, sweeps
from vf.obs import core as O
from vf.props import common
from vf.run import Job, Result

ID = 'C05'
RULE = ('(In 30% of the generated programs the token store works with blocks of 4 instead of 1000 tokens, so that the edits split and merge blocks, the first one included, in small documents.) A generated ledger (G1) followed by a state-aware program of 1-10 (quick) / 1-30 (thorough) edits drawn from every family '
        '(token value, optional / required / custom-optional slot, value-level property, every MutableSequence operation on raw lists, '
        'filtered and string views with every index class, meta mapping operations, spacing, comment claim/unclaim/auto-claim, '
        'deep-copy-and-insert, pop-and-reinsert, in-place arithmetic), with 60% of later operations aimed at nodes that an earlier '
        'operation inserted, moved or copied. After every step the structural invariants (one store, ordered first/last, nested '
        'disjoint ordered children, every significant token owned by exactly one leaf, every leaf in the store) are checked on the '
        'root and on every node returned by pop(). Non-trivial = history of >= 2 applied operations in which a later one goes through '
        'a node inserted/moved/copied by an earlier one.')
ASSUMPTIONS = [
    'histories are op lists with selectors reduced modulo the candidates present (a data encoding of a rule-based state machine), '
    'generated state-aware so that every drawn operation is applicable when drawn',
    'a history is not continued after a refused or crashed operation (the state after a refusal is C19\'s subject)',
]
SHRINK_LISTS = ('ops', 'dirs')
REQUIRED_CLASSES = ('lf:4', 'through-inserted', 'fam:list', 'fam:view', 'fam:opt', 'fam:val', 'fam:popins', 'fam:copyins', 'popped-node')


def run_case(case: dict) -> Result:
    # small store blocks in a share of the cases: the edits then split and merge blocks (the first block included) in small documents
    old = GS.set_lf(int(case.get('lf', 1000)))
    try:
        res = _run_case(case)
        if not res.discard:
            res.classes = sorted(set(res.classes) | {'lf:%d' % int(case.get('lf', 1000))})
        return res
    finally:
        GS.restore_lf(old)


def _run_case(case: dict) -> Result:
    res = Result()
    root = common.parse_case(case)
    if root is None:
        return Result(discard=True)
    classes = set()
    bad0 = O.invariants(root)
    if bad0:
        return res.bad(f'{bad0[0][0]}:after-parse', f'the freshly parsed document is not a valid tree: {bad0[:3]} ; text {O.store_text(root.token_store)!r}')
    hot: set[int] = set()
    hot_tokens: set[int] = set()
    applied = 0
    through = False
    for op in case['ops']:
        try:
            a = OPS.resolve(root, op)
        except OPS.NotApplicable:
            continue
        if a.P is not None and (id(a.P) in hot or (a.family == 'tok' and id(a.P) in hot_tokens)):
            through = True
        popped = None
        try:
            popped = a.run()
        except common.REFUSAL:
            classes.add('refused')
            break
        except ArithmeticError:
            # a value that does not evaluate (x / 0) was read by a read-and-remove operation: a legitimate exception; the tree is still checked below
            classes.add('unevaluable-value')
            bad0 = O.invariants(root)
            if bad0:
                res.bad(f'invariant-after-arithmetic-error:{bad0[0][0]}:{a.key()}', f'{op} raised an arithmetic error and left {bad0[:2]}')
            break
        except Exception as e:  # noqa: BLE001
            res.bad(f'edit-crashed:{a.key()}:{type(e).__name__}', f'{op} raised {e!r}')
            break
        applied += 1
        classes.add('fam:' + a.family)
        for x in a.inserted:
            hot.update(id(m) for m, _ in O.walk(x) if isinstance(m, base.RawTreeModel))
            hot_tokens.update(id(m) for m, _ in O.walk(x) if isinstance(m, base.RawTokenModel))
        if a.family == 'tok' and through:
            # end-to-end witness: an edit through a node that an earlier operation placed must show in the printed document
            if a.P.raw_text not in O.print_text(root) or O.Order(root.token_store).ord(a.P) is None:
                res.bad(f'edit-through-inserted-node-lost:{a.key()}', f'{op}: the edited token {a.P.raw_text!r} is not part of the printed document')
                break
        bad = O.invariants(root)
        if bad:
            res.bad(f'{bad[0][0]}:{a.key()}', f'after {op}: {bad[:3]} ; document now {O.store_text(root.token_store)!r}')
            break
        nodes = []
        if a.family in ('list', 'view') and a.op.get('op') in ('pop', 'pop_last') and isinstance(popped, base.RawModel):
            nodes.append(popped)
        if a.family == 'map' and a.op.get('op') in ('pop', 'pop_default') and isinstance(popped, base.RawModel):
            nodes.append(popped)
        for node in nodes:
            classes.add('popped-node')
            pb = O.invariants(node, whole_store=True, check_comments=False)
            if pb:
                res.bad(f'popped:{pb[0][0]}:{a.key()}', f'node returned by {op}: {pb[:3]}')
                break
        if res.violations:
            break
    if through:
        classes.add('through-inserted')
    res.classes = sorted(classes)
    res.nontrivial = applied >= 2 and through
    return res


def _build(tier: str):
    cfg = L.Cfg(max_dirs=4 if tier == 'quick' else 8)
    n = 10 if tier == 'quick' else 30

    def build(rnd: Any) -> dict:
        lf = 4 if rnd.random() < 0.3 else 1000
        old = GS.set_lf(lf)
        try:
            case = OPS.build_program(rnd, cfg, common.EDIT_FAMILIES, n, common.parse_file, stick=0.5)
        finally:
            GS.restore_lf(old)
        case['lf'] = lf
        return case
    return build


def _build_juggle(tier: str):
    """Standalone comments inserted into body lists, then state-aware claim / unclaim walks between the neighbouring lists and models:
    placeholders of sibling lists are shifted around the comments by every claim."""
    from vf.props import c04
    cfg = L.Cfg(max_dirs=2, comments=0.5, hazard_text=0.02, exotic=0.02)

    def build(rnd: Any) -> dict:
        g = L.G(rnd, cfg)
        groups = [g.directive(g.pick(['transaction', 'transaction', 'transaction', 'open', 'note']))['lines'] for _ in range(g.n(1, 2))]
        chunks = L.merge_comments([c for c in (g.join_lines(x) for x in groups) if c])
        case = {'dirs': chunks, 'ops': []}
        try:
            root = common.parse_file(L.text_of(chunks))
        except Exception:  # noqa: BLE001
            return case
        for _ in range(g.n(1, 3)):
            cands = OPS.candidates(root, {'clist'})
            cands = [c for c in cands if c[2] != 'File'] or cands
            if not cands:
                break
            m, p, cname, mi = cands[g.n(0, len(cands) - 1)]
            kind = 'BLOCK_COMMENT' if cname == 'File' else 'BLOCK_COMMENT_IND'
            n = len(getattr(m, p.name))
            op = {'f': 'list', 'cls': cname, 'mi': mi, 'prop': p.name, 'op': 'insert', 'i': g.pick([0, 0, n, n // 2]),
                  'donors': [OPS.D.make(kind, g, indent=OPS.sibling_indent(m, p))]}
            case['ops'].append(op)
            try:
                OPS.resolve(root, op).run()
            except Exception:  # noqa: BLE001
                case['ops'].pop()
        for _ in range(g.n(1, 2)):
            try:
                case['ops'] += c04.pingpong_ops(g, root)
            except Exception:  # noqa: BLE001
                break
        return case
    return build


def jobs(tier: str) -> list[Job]:
    return [Job('histories', 'hyp', lambda: _build(tier), 2500 if tier == 'quick' else 120000),
            Job('comment-juggling', 'hyp', lambda: _build_juggle(tier), 1500 if tier == 'quick' else 60000),
            Job('list-sweep', 'enum', sweeps.list_sweep, exhaustive=True),
            Job('slot-sweep', 'enum', sweeps.slot_sweep, exhaustive=True),
            Job('insert-then-edit', 'enum', sweeps.insert_then_edit, exhaustive=True)]
