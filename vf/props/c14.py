"""C14 - every block comment has at most one owner, chosen by the documented rules."""
from __future__ import annotations

from typing import Any, Optional

from autobean_refactor import models
from autobean_refactor.models import base
from autobean_refactor.models.block_comment import BlockComment

from vf.gen import ledger as L, ops as OPS, schema as S
from vf.obs import core as O
from vf.props import common, c04
from vf.run import Job, Result

ID = 'C14'
RULE = ('Generated ledgers biased to comment layouts (comment blocks of both indentation classes before, between, inside and after directives, '
        'postings and meta items, alone or stacked, with and without blank / whitespace-only lines, at file start and end, before a dedent), then a '
        'program of 0-12 attribution calls (auto_claim_comments on any model, claim/unclaim leading / trailing, claim/unclaim interleaving, all or a '
        'subset). Oracles: (1) uniqueness - every block comment of the store is held by at most one tree position and claimed exactly when it is held; '
        'after default parsing every comment is owned; (2) a second auto_claim_comments() changes nothing; (3) parse(text) and parse(text, '
        'auto_claim_comments=False) + auto_claim_comments() give the same ownership map; (4) unclaim followed by claim through the same API restores '
        'the map; (5) the documented order, judged by a reference that works on the lines of the text: L (comment directly above a model of the same '
        'indentation class => its leading comment), X (different class => not that model\'s leading/trailing comment), T (not L, directly below a '
        'model of the same class and followed by a blank line / end of file / a line of the other class => trailing comment of one of the models '
        'ending there), S (blank or file boundary on both sides => an entry of a repeated field). Layouts where the documented rule has more than one '
        'reading are counted as undecided and accept anything. Built-documents job: files assembled with Open / Transaction / Posting from_value and comment setters (0-2 meta items, 0-2 postings, posting meta, trailing comments on every subset, a standalone note at the end of a body, an optional following directive with or without a leading comment): where their attribution equals that of parse(printed text), releasing any comment and running auto_claim_comments() on the document, and unclaim_interleaving_comments() + claim_interleaving_comments(), must restore it. Non-trivial = a document with a comment adjacent to models on both sides, or directly '
        'before a dedent, or of a different indentation class than a neighbour.')
RULE = RULE + ' Round 8: a refused claim_interleaving_comments(released comments + one the list cannot take) must leave uniqueness and attribution as they were.'
ASSUMPTIONS = ['which repeated field a standalone comment joins is not prescribed', 'among nested models ending on the same line any one may own a trailing comment']
SHRINK_LISTS = ('ops', 'dirs')
REQUIRED_CLASSES = ('stage:built', 'rule:L', 'rule:T', 'rule:S', 'rule:X', 'stage:parse-vs-later', 'stage:idempotent', 'stage:unclaim-claim', 'stage:program')


class Lines:
    def __init__(self, root: Any) -> None:
        self.order = O.Order(root.token_store)
        self.text = ''.join(t.raw_text for t in self.order.tokens)
        self.lines = self.text.split('\n')
        n = len(self.lines)
        self.kind = ['blank'] * n   # blank | comment | content
        self.tok_line = []
        self.tok_end_line = []
        for i, t in enumerate(self.order.tokens):
            start = self.text.count('\n', 0, self.order.offset[i])
            end = start + t.raw_text.count('\n')
            self.tok_line.append(start)
            self.tok_end_line.append(end)
            if not t.raw_text or isinstance(t, (O.Whitespace, O.Newline)):
                continue
            if isinstance(t, BlockComment):
                for ln in range(start, end + 1):
                    if self.kind[ln] == 'blank':
                        self.kind[ln] = 'comment'
            else:
                last = end if not t.raw_text.endswith('\n') else end
                for ln in range(start, last + 1):
                    self.kind[ln] = 'content'

    def indented(self, ln: int) -> bool:
        return self.lines[ln][:1] in (' ', '\t')

    def span_of(self, m: Any) -> Optional[tuple[int, int]]:
        """(first content line, last content line) of a model"""
        try:
            a, b = self.order.ord(m.first_token), self.order.ord(m.last_token)
        except Exception:  # noqa: BLE001
            return None
        if a is None or b is None:
            return None
        first = last = None
        for i in range(a, b + 1):
            t = self.order.tokens[i]
            if not t.raw_text or isinstance(t, (O.Whitespace, O.Newline, BlockComment)):
                continue
            if first is None:
                first = self.tok_line[i]
            last = self.tok_end_line[i]
        if first is None:
            return None
        return first, last


def commentable(root: Any) -> list:
    return [m for m, _ in O.walk(root) if isinstance(m, base.RawTreeModel) and hasattr(m, 'claim_leading_comment')]


def ownership(root: Any, lines: Optional[Lines] = None) -> tuple[dict, list]:
    """comment token id -> list of holders (kind, owner description); and the problems found."""
    lines = lines or Lines(root)
    holders: dict[int, list] = {}
    for m, _ in O.walk(root, lines.order):
        if isinstance(m, O.Repeated) or not isinstance(m, base.RawTreeModel):
            continue
        sp = lines.span_of(m)
        desc = (type(m).__name__, sp[0] if sp else None)
        for attr, kind in (('_leading_comment', 'leading'), ('_trailing_comment', 'trailing')):
            c = vars(m).get(attr)
            if c is not None:
                holders.setdefault(id(c), []).append((kind, desc))
        for k, v in vars(m).items():
            if isinstance(v, O.Repeated):
                for it in v.items:
                    if isinstance(it, BlockComment):
                        holders.setdefault(id(it), []).append(('item', (type(m).__name__, sp[0] if sp else None, k)))
    return holders, []


def omap(root: Any) -> list:
    lines = Lines(root)
    holders, _ = ownership(root, lines)
    out = []
    for i, t in enumerate(lines.order.tokens):
        if isinstance(t, BlockComment):
            out.append((lines.tok_line[i], t.claimed, tuple(sorted(map(repr, holders.get(id(t), []))))))
    return out


def check_unique(root: Any, require_owned: bool, what: str) -> Optional[tuple]:
    lines = Lines(root)
    holders, _ = ownership(root, lines)
    for i, t in enumerate(lines.order.tokens):
        if not isinstance(t, BlockComment):
            continue
        hs = holders.get(id(t), [])
        where = f'comment on line {lines.tok_line[i]} {t.raw_text[:30]!r}'
        if len(hs) > 1:
            return ('two-owners', f'{what}: {where} is held by {hs!r}')
        if t.claimed and not hs:
            return ('claimed-but-unowned', f'{what}: {where} is marked claimed but no leading/trailing slot or list holds it')
        if hs and not t.claimed:
            return ('owned-but-unclaimed', f'{what}: {where} is held by {hs!r} but not marked claimed')
        if require_owned and not hs:
            return ('unowned-after-parse', f'{what}: {where} has no owner after default parsing; text {lines.text!r}')
    live = {id(t) for t in lines.order.tokens}
    for cid, hs in holders.items():
        if cid not in live:
            return ('owner-of-foreign-comment', f'{what}: a slot holds a comment that is not in the store: {hs!r}')
    return None


def check_rules(root: Any, classes: set) -> list:
    lines = Lines(root)
    holders, _ = ownership(root, lines)
    ms = commentable(root)
    spans = [(m, lines.span_of(m)) for m in ms]
    spans = [(m, sp) for m, sp in spans if sp is not None]
    first_at: dict[int, list] = {}
    last_at: dict[int, list] = {}
    for m, sp in spans:
        first_at.setdefault(sp[0], []).append(m)
        last_at.setdefault(sp[1], []).append(m)
    n = len(lines.lines)
    found: list = []

    def kind(ln: int) -> str:
        if ln < 0 or ln >= n:
            return 'edge'
        if ln == n - 1 and lines.lines[ln] == '':
            return 'edge'
        return lines.kind[ln]

    for i, t in enumerate(lines.order.tokens):
        if not isinstance(t, BlockComment):
            continue
        b_first, b_last = lines.tok_line[i], lines.tok_end_line[i]
        b_ind = t.raw_text[:1] in (' ', '\t')
        hs = holders.get(id(t), [])
        if len(hs) != 1:
            continue
        hk, hdesc = hs[0]
        after, before = b_last + 1, b_first - 1
        where = f'comment on line {b_first} ({"indented" if b_ind else "unindented"}) in {lines.text!r}'
        below = first_at.get(after, []) if kind(after) == 'content' else []
        above = last_at.get(before, []) if kind(before) == 'content' else []
        decided = False
        # X: class mismatch with the model directly below / above
        for M in below:
            m_ind = lines.indented(after)
            if m_ind != b_ind:
                classes.add('rule:X')
                decided = True
                if hk == 'leading' and hdesc == (type(M).__name__, after):
                    layout = 'unindented-comment-above-indented-line' if m_ind else 'indented-comment-above-unindented-line'
                    found.append((f'rule-X:leading:{layout}', f'{where} is the leading comment of the {type(M).__name__} below although their indentation classes differ'))
        for M in above:
            sp = lines.span_of(M)
            m_ind = lines.indented(sp[0])
            if m_ind != b_ind and hk == 'trailing' and hdesc == (type(M).__name__, sp[0]):
                classes.add('rule:X')
                layout = 'unindented-comment-below-indented-model' if m_ind else 'indented-comment-below-unindented-model'
                found.append((f'rule-X:trailing:{layout}', f'{where} is the trailing comment of the {type(M).__name__} above although their indentation classes differ'))
        # L
        same_below = [M for M in below if lines.indented(after) == b_ind]
        if same_below:
            classes.add('rule:L')
            decided = True
            M = same_below[0]
            if not (hk == 'leading' and hdesc == (type(M).__name__, after)):
                found.append((f'rule-L:{type(M).__name__}:got-{hk}:{_holder(hk, hdesc)}', f'{where} sits directly above a {type(M).__name__} of the same indentation class but is {hk} of {hdesc!r}'))
            continue
        # T
        same_above = [M for M in above if lines.indented(lines.span_of(M)[0]) == b_ind]
        after_kind = kind(after)
        after_other_class = after_kind == 'content' and lines.indented(after) != b_ind
        if same_above and (after_kind in ('blank', 'edge') or after_other_class):
            classes.add('rule:T')
            decided = True
            ok = hk == 'trailing' and any(hdesc == (type(M).__name__, lines.span_of(M)[0]) for M in same_above)
            if not ok:
                names = '/'.join(sorted({type(M).__name__ for M in same_above}))
                found.append((f'rule-T:{names}:got-{hk}:{_holder(hk, hdesc)}', f'{where} sits directly below {names} of the same indentation class (no model of its class directly below) but is {hk} of {hdesc!r}'))
            continue
        # S
        if kind(before) in ('blank', 'edge') and kind(after) in ('blank', 'edge'):
            classes.add('rule:S')
            decided = True
            if hk != 'item':
                found.append((f'rule-S:got-{hk}:{_holder(hk, hdesc)}', f'{where} is separated from everything by blank lines / file boundaries but is {hk} of {hdesc!r}'))
            continue
        if not decided:
            classes.add('rule:undecided')
    return found


def _holder(hk: str, hdesc: Any) -> str:
    if hk == 'item':
        return f'{hdesc[0]}.{hdesc[2]}'
    return str(hdesc[0])


def build_document(spec: dict) -> Any:
    """A document assembled with the value-level constructors (entries built this way carry no dedent mark)."""
    import datetime
    import decimal
    file = common.parser().parse('', models.File)
    for n, e in enumerate(spec['entries']):
        meta = {'k%da' % n: 'v', 'k%db' % n: decimal.Decimal(2)}
        meta = dict(list(meta.items())[:e['meta']]) or None
        kw = dict(meta=meta, leading_comment='lead %d' % n if e.get('lc') else None, trailing_comment='trail %d' % n if e.get('tc') else None)
        if e['kind'] == 'open':
            d = models.Open.from_value(datetime.date(2000, 1, 1 + n), 'Assets:A%d' % n, **kw)
        else:
            ps = []
            for k in range(e.get('postings', 0)):
                ps.append(models.Posting.from_value('Assets:P%d' % k, decimal.Decimal(k + 1), 'USD',
                                                    meta={'pk': 'w'} if e.get('pmeta') and k == 0 else None,
                                                    leading_comment='plead %d' % k if (e.get('plc', 0) >> k) & 1 else None,
                                                    trailing_comment='ptrail %d' % k if (e.get('ptc', 0) >> k) & 1 else None))
            d = models.Transaction.from_value(datetime.date(2000, 1, 1 + n), None, 'n%d' % n, ps, **kw)
            if e.get('pmeta') and e.get('pmtc') and ps:
                ps[0].raw_meta[0].trailing_comment = 'pmtrail'
        for k in range(e['meta']):
            if (e.get('mtc', 0) >> k) & 1:
                d.raw_meta[k].trailing_comment = 'mtrail %d' % k
            if (e.get('mlc', 0) >> k) & 1:
                d.raw_meta[k].leading_comment = 'mlead %d' % k
        if e.get('standalone') == 'meta' and hasattr(d, 'raw_meta_with_comments'):
            d.raw_meta_with_comments.append(BlockComment.from_value('note %d' % n, indent='    '))
        if e.get('standalone') == 'postings' and e['kind'] == 'txn':
            d.raw_postings_with_comments.append(BlockComment.from_value('pnote %d' % n, indent='    '))
        file.raw_directives.append(d)
    return file


def _run_built(case: dict) -> Result:
    res = Result()
    classes = {'stage:built'}
    try:
        root = build_document(case['built'])
    except common.REFUSAL:
        return Result(discard=True)
    text = O.print_text(root)
    res.nontrivial = any(e.get('tc') or e.get('mtc') or e.get('ptc') or e.get('standalone') for e in case['built']['entries'])
    bad = check_unique(root, True, 'after construction')
    if bad:
        return _done(res.bad('built:unique:' + bad[0], bad[1]), classes)
    try:
        parsed = common.parse_file(text)
    except Exception:  # noqa: BLE001 - C15's subject
        return Result(discard=True)
    if omap(parsed) != omap(root):
        # the constructors decide ownership themselves; where the text reads differently, only the agreement with later attribution is in question
        classes.add('built:differs-from-parse')
        return _done(res, classes)
    for stage in (_release_then_auto, _release_then_claim_lists):
        bad = stage(root, text, classes)
        if bad:
            return _done(res.bad('built:' + bad[0], 'a document assembled with from_value constructors (no dedent marks): ' + bad[1]), classes)
        root = build_document(case['built'])
    return _done(res, classes)


def _release_then_claim_lists(root: Any, text: str, classes: set) -> Optional[tuple]:
    """unclaim_interleaving_comments() followed by claim_interleaving_comments() (nothing named) restores the list's standalone comments."""
    for ms in OPS.index_models(root).values():
        for m in ms:
            for p in S.props_of(m):
                if p.kind != 'clist':
                    continue
                w = getattr(m, p.name)
                if not any(isinstance(x, BlockComment) for x in w):
                    continue
                before = omap(root)
                w.unclaim_interleaving_comments()
                try:
                    w.claim_interleaving_comments()
                except Exception as e:  # noqa: BLE001
                    return (f'unclaim-claim-list-raised:{type(e).__name__}', f'unclaim_interleaving_comments() then claim_interleaving_comments() on '
                            f'{type(m).__name__}.{p.name} raised {e!r} in {text!r}')
                classes.add('stage:unclaim-claim-list')
                if omap(root) != before:
                    return (f'unclaim-claim-list:{type(m).__name__}.{p.name}', f'unclaim_interleaving_comments() then claim_interleaving_comments() on '
                            f'{type(m).__name__}.{p.name} does not restore the attribution: {_mdiff(before, omap(root))} in {text!r}')
    return None


def _built_sweep():
    for kind in ('open', 'txn'):
        for meta in (0, 1, 2):
            for mtc in range(1 << meta):
                for tc in (False, True):
                    for standalone in (None, 'meta', 'postings'):
                        if standalone == 'postings' and kind != 'txn':
                            continue
                        for follow in (None, {'kind': 'open', 'meta': 0}, {'kind': 'open', 'meta': 0, 'lc': True}):
                            variants = [{}]
                            if kind == 'txn':
                                variants = [{'postings': n, 'ptc': ptc, 'pmeta': pm, 'pmtc': pm}
                                            for n in (0, 1, 2) for ptc in range(1 << n) for pm in ((False, True) if n else (False,))]
                            for v in variants:
                                if standalone == 'postings' and meta and not v.get('postings'):
                                    continue   # the layout of the open finding about transactions with meta and no postings
                                e = {'kind': kind, 'meta': meta, 'mtc': mtc, 'tc': tc, 'standalone': standalone, **v}
                                yield {'built': {'entries': [e] + ([follow] if follow else [])}}


def run_case(case: dict) -> Result:
    if case.get('built'):
        return _run_built(case)
    res = Result()
    classes = set()
    root = common.parse_case(case, claim=True)
    if root is None:
        return Result(discard=True)
    text = L.text_of(case['dirs'])
    # non-triviality
    lines = Lines(root)
    for i, t in enumerate(lines.order.tokens):
        if isinstance(t, BlockComment):
            a, b = lines.tok_line[i] - 1, lines.tok_end_line[i] + 1
            ka = lines.kind[a] if 0 <= a < len(lines.kind) else 'edge'
            kb = lines.kind[b] if 0 <= b < len(lines.kind) else 'edge'
            ind = t.raw_text[:1] in (' ', '\t')
            if (ka == 'content' and kb == 'content') or (ind and kb == 'content' and not lines.indented(b)) or \
                    (ka == 'content' and lines.indented(a) != ind) or (kb == 'content' and lines.indented(b) != ind):
                res.nontrivial = True
    bad = check_unique(root, True, 'after parse')
    if bad:
        return _done(res.bad('unique:' + bad[0], bad[1]), classes)
    inv = O.invariants(root)
    if inv:
        # an owner must contain what it owns: a comment claimed by a list of a model that does not enclose it breaks the nesting of spans
        return _done(res.bad(f'owner-does-not-enclose:{inv[0][0]}', f'after default parsing of {text!r}: {inv[:3]}'), classes)
    for dev in check_rules(root, classes):
        if not any(b == dev[0] for b, _ in res.violations):
            res.bad(*dev)
    m0 = omap(root)
    # (3) parse-time vs later
    later = common.parse_case(case, claim=False)
    later.auto_claim_comments()
    classes.add('stage:parse-vs-later')
    if omap(later) != m0:
        return _done(res.bad('parse-vs-later', f'parse(text) and parse(text, auto_claim_comments=False) + auto_claim_comments() attribute differently: '
                             f'{_mdiff(m0, omap(later))} in {text!r}'), classes)
    # (2) idempotence
    root.auto_claim_comments()
    classes.add('stage:idempotent')
    if omap(root) != m0:
        return _done(res.bad('not-idempotent', f'a second auto_claim_comments() changed the attribution: {_mdiff(m0, omap(root))} in {text!r}'), classes)
    # (4) unclaim then claim restores
    for m in commentable(root):
        for side in ('leading', 'trailing'):
            if vars(m).get('_' + side + '_comment') is None:
                continue
            before = omap(root)
            comment = vars(m).get('_' + side + '_comment')
            getattr(m, 'unclaim_' + side + '_comment')()
            bad = check_unique(root, False, f'after unclaim_{side}_comment')
            if bad:
                return _done(res.bad('unique:' + bad[0], bad[1]), classes)
            # the released comment (still in the document) offered to another model's comment slot: refused, and the refusal must leave the comment
            # unowned and flagged so - otherwise the claim below cannot restore the attribution (round 9, seed C14-i)
            taker = next((x for x in commentable(root) if x is not m and hasattr(type(x), 'raw_leading_comment') and vars(x).get('_leading_comment') is None), None)
            if isinstance(comment, BlockComment) and taker is not None:
                mid = omap(root)
                try:
                    taker.raw_leading_comment = comment
                except Exception:  # noqa: BLE001
                    classes.add('stage:refused-hand-over')
                    bad = check_unique(root, False, f'after a refused hand-over of the comment released by unclaim_{side}_comment to another model')
                    if bad:
                        return _done(res.bad('unique:refused-hand-over:' + bad[0], bad[1]), classes)
                    if omap(root) != mid:
                        return _done(res.bad(f'refused-hand-over-changed-attribution:{side}', f'a refused raw_leading_comment = <released comment> changed the attribution: '
                                             f'{_mdiff(mid, omap(root))} in {text!r}'), classes)
                else:
                    return _done(res, classes)   # accepted: an attached node in two places is C19's subject; this round trip ends here
            try:
                getattr(m, 'claim_' + side + '_comment')()
            except Exception as e:  # noqa: BLE001
                return _done(res.bad(f'unclaim-claim:{side}-raised:{type(e).__name__}', f'unclaim_{side}_comment() then claim_{side}_comment() on a '
                                     f'{type(m).__name__} raised {e!r} in {text!r}'), classes)
            classes.add('stage:unclaim-claim')
            if omap(root) != before:
                return _done(res.bad(f'unclaim-claim:{side}:{type(m).__name__}', f'unclaim_{side}_comment() then claim_{side}_comment() on a {type(m).__name__} '
                                     f'does not restore the attribution: {_mdiff(before, omap(root))} in {text!r}'), classes)
    for ms in OPS.index_models(root).values():
        for m in ms:
            for p in S.props_of(m):
                if p.kind != 'clist':
                    continue
                w = getattr(m, p.name)
                if not any(isinstance(x, BlockComment) for x in w):
                    continue
                before = omap(root)
                none = w.unclaim_interleaving_comments([])   # an empty selection names no comment
                if len(none) or omap(root) != before:
                    return _done(res.bad(f'unclaim-empty-selection:{type(m).__name__}.{p.name}', f'unclaim_interleaving_comments([]) on {type(m).__name__}.{p.name} released '
                                         f'{len(none)} comment(s) / changed the attribution ({_mdiff(before, omap(root))}) in {text!r}'), classes)
                w.claim_interleaving_comments([])
                if omap(root) != before:
                    return _done(res.bad(f'claim-empty-selection:{type(m).__name__}.{p.name}', f'claim_interleaving_comments([]) changed the attribution in {text!r}'), classes)
                un = w.unclaim_interleaving_comments()
                bad = check_unique(root, False, 'after unclaim_interleaving_comments')
                if bad:
                    return _done(res.bad('unique:' + bad[0], bad[1]), classes)
                if un:
                    # a selection that cannot be satisfied as a whole (the released comments plus one this list cannot take: another owner's
                    # comment, or one that is not in the document): if it is refused, no comment may come out of it flagged as owned (round 8, seed C14-h)
                    others = [t for t in O.store_tokens(root.token_store) if isinstance(t, BlockComment) and not any(t is u for u in un)]
                    for foreign in ([others[0]] if others else []) + [BlockComment.from_value('not in the document')]:
                        mid = omap(root)
                        try:
                            w.claim_interleaving_comments([*un, foreign])
                        except Exception:  # noqa: BLE001
                            classes.add('stage:refused-mixed-selection')
                            bad = check_unique(root, False, 'after a refused claim_interleaving_comments(released comments + one it cannot take)')
                            if bad:
                                return _done(res.bad('unique:refused-claim:' + bad[0], bad[1]), classes)
                            if omap(root) != mid:
                                return _done(res.bad(f'refused-claim-changed-attribution:{type(m).__name__}.{p.name}', f'a refused claim_interleaving_comments() changed the '
                                                     f'attribution: {_mdiff(mid, omap(root))} in {text!r}'), classes)
                        else:
                            break   # accepted (the other comment was claimable too): the attribution moved on, the round trip below does not apply
                    if omap(root) != mid:
                        continue
                try:
                    w.claim_interleaving_comments(un)
                except Exception as e:  # noqa: BLE001
                    return _done(res.bad(f'unclaim-claim:interleaving-raised:{type(e).__name__}', f'unclaim_interleaving_comments() then '
                                         f'claim_interleaving_comments(those) on {type(m).__name__}.{p.name} raised {e!r} in {text!r}'), classes)
                classes.add('stage:unclaim-claim')
                if omap(root) != before:
                    return _done(res.bad(f'unclaim-claim:interleaving:{type(m).__name__}.{p.name}', f'unclaim_interleaving_comments() then claim_interleaving_comments(those) '
                                         f'does not restore the attribution: {_mdiff(before, omap(root))} in {text!r}'), classes)
    # (5) automatic attribution run later follows the same order: one released comment (or one list's released entries), everything else as
    # parsed, then auto_claim_comments() on the document gives back what parsing gave
    bad5 = _release_then_auto(root, text, classes)
    if bad5:
        return _done(res.bad(*bad5), classes)
    # (6) a list replaced as a whole by its own deep copy (the only form whole-field assignment accepts) is still a list with interleaving comments
    bad6 = _copy_field_then_claim(root, text, classes)
    if bad6:
        return _done(res.bad(*bad6), classes)
    # (6b) a list asked to claim a comment that lies outside its owner's body: refused, or accepted without breaking the nesting
    bad6b = _inner_list_outer_comment(root, text, classes)
    if bad6b:
        return _done(res.bad(*bad6b), classes)
    # (7) a copy of a released comment given to a model: whoever holds a comment owns it, and its flag says so
    bad7 = _assign_copied_comment(root, text, classes)
    if bad7:
        return _done(res.bad(*bad7), classes)
    # program of attribution calls: uniqueness after every call
    for op in case.get('ops', []):
        try:
            c04._act(root, OPS.index_models(root), op, set())
        except OPS.NotApplicable:
            continue
        except ValueError:
            pass
        except Exception as e:  # noqa: BLE001
            res.bad(f'claim-call-raised:{op.get("op")}:{type(e).__name__}', f'{op} raised {e!r} in {text!r}')
            break
        classes.add('stage:program')
        bad = check_unique(root, False, f'after {op}')
        if bad:
            res.bad('unique:' + bad[0] + ':' + str(op.get('op')), bad[1])
            break
    # "at all times": a deep copy (of the state the program reached) carries the same attribution, each comment owned at most once
    if not res.violations:
        import copy
        try:
            cp = copy.deepcopy(root)
        except Exception:  # noqa: BLE001 - C11's subject
            cp = None
        if cp is not None:
            classes.add('stage:copy')
            bad = check_unique(cp, False, 'in a deep copy')
            if bad:
                res.bad('unique:' + bad[0] + ':deepcopy', bad[1])
            elif omap(cp) != omap(root):
                res.bad('copy-attribution-differs', f'a deep copy attributes comments differently: {_mdiff(omap(root), omap(cp))} in {text!r}')
    # (8) last, because it edits the text: a standalone comment appended to a meta list, released, claimed again through the same list
    if not res.violations:
        bad8 = _append_release_claim(root, classes)
        if bad8:
            res.bad(*bad8)
    return _done(res, classes)


def _append_release_claim(root: Any, classes: set) -> Optional[tuple]:
    for cn, ms in sorted(OPS.index_models(root).items()):
        for m in ms:
            if not hasattr(type(m), 'raw_meta_with_comments'):
                continue
            w = m.raw_meta_with_comments
            ind = (m.indent if cn == 'Posting' else '') + '    '
            c = BlockComment.from_value('appended', indent=ind)
            try:
                w.append(c)
            except Exception:  # noqa: BLE001 - edits are other properties' subject
                return None
            classes.add('stage:append-release-claim')
            text = O.print_text(root)
            before = omap(root)
            try:
                w.unclaim_interleaving_comments([c])
                w.claim_interleaving_comments([c])
            except ValueError as e:
                ends_model = not any(x is c for x in w) and w.repeated.last_token is m.last_token
                shape = 'list-ends-model' if ends_model else 'other'
                return (f'unclaim-claim:appended-comment:{shape}:{"Posting" if cn == "Posting" else "entry"}',
                        f'{cn}.raw_meta_with_comments.append(comment); unclaim_interleaving_comments([comment]); claim_interleaving_comments([comment]) raised {e!r} in {text!r}')
            if omap(root) != before:
                return (f'unclaim-claim:appended-comment:not-restored:{cn}', f'unclaim then claim of an appended comment does not restore the attribution in {text!r}')
            return None
    return None


def _inner_list_outer_comment(root: Any, text: str, classes: set) -> Optional[tuple]:
    for m in commentable(root):
        lists = [p.name for p in S.props_of(m) if p.kind == 'clist']
        if vars(m).get('_trailing_comment') is None or not lists:
            continue
        for pname in lists:
            c = m.unclaim_trailing_comment()
            if c is None:
                break
            w = getattr(m, pname)
            try:
                w.claim_interleaving_comments([c])
                accepted = True
            except ValueError:
                accepted = False
            classes.add('stage:inner-list-outer-comment')
            if accepted:
                inv = O.invariants(root)
                bad = check_unique(root, False, f'after {type(m).__name__}.{pname}.claim_interleaving_comments([its owner\'s released trailing comment])')
                if inv or bad:
                    return (f'inner-list-claims-outer-comment:{type(m).__name__}.{pname}',
                            f'{type(m).__name__}.{pname}.claim_interleaving_comments([the released trailing comment of the {type(m).__name__}]) was accepted and left '
                            f'{inv[:2] or bad}; text {text!r}')
                w.unclaim_interleaving_comments([c])
            try:
                m.claim_trailing_comment()
            except ValueError:
                return None
    return None


def _assign_copied_comment(root: Any, text: str, classes: set) -> Optional[tuple]:
    import copy
    for m in commentable(root):
        if vars(m).get('_trailing_comment') is None or vars(m).get('_leading_comment') is not None:
            continue
        note = m.unclaim_trailing_comment()
        cp = copy.deepcopy(note)          # an unowned comment's copy (flag: not claimed)
        m.claim_trailing_comment()
        try:
            m.raw_leading_comment = cp    # same indentation class as the model: it was its trailing comment
        except common.REFUSAL:
            continue
        classes.add('stage:copied-comment')
        what = f'{type(m).__name__}.raw_leading_comment = deepcopy(its released trailing comment)'
        bad = check_unique(root, False, 'after ' + what)
        if bad:
            return ('unique:' + bad[0] + ':copied-comment', bad[1])
        root.auto_claim_comments()
        bad = check_unique(root, False, 'after ' + what + ' and auto_claim_comments()')
        if bad:
            return ('unique:' + bad[0] + ':copied-comment-auto', bad[1])
        m.raw_leading_comment = None
        break
    return None


def _copy_field_then_claim(root: Any, text: str, classes: set) -> Optional[tuple]:
    import copy
    targets = [(cn, mi, p.name) for cn, ms in OPS.index_models(root).items() for mi, m in enumerate(ms) for p in S.props_of(m) if p.kind == 'clist']
    for cn, mi, pname in targets:
        ms = OPS.index_models(root).get(cn, [])    # re-resolved: replacing an outer list replaces the models inside it by their copies
        if mi >= len(ms):
            continue
        m = ms[mi]
        for p in [S.prop(m, pname)]:
            if True:
                if not any(isinstance(x, BlockComment) for x in getattr(m, p.name)):
                    continue
                key = f'{type(m).__name__}.{p.name}'
                try:
                    setattr(m, p.name, copy.deepcopy(getattr(m, p.name)))
                except Exception as e:  # noqa: BLE001
                    return (f'field-copy-raised:{key}:{type(e).__name__}', f'{key} = deepcopy({key}) raised {e!r} in {text!r}')
                classes.add('stage:field-copy')
                if O.print_text(root) != text:
                    return (f'field-copy-changed-text:{key}', f'{key} = deepcopy({key}) changed the text of {text!r} to {O.print_text(root)!r}')
                bad = check_unique(root, True, f'after {key} = deepcopy({key})')
                if bad:
                    return ('unique:' + bad[0] + ':field-copy', bad[1])
                w = getattr(m, p.name)
                try:
                    un = w.unclaim_interleaving_comments()
                    w.claim_interleaving_comments(un)
                    root.auto_claim_comments()
                except Exception as e:  # noqa: BLE001
                    return (f'field-copy-claim-raised:{key}:{type(e).__name__}', f'after {key} = deepcopy({key}), unclaim / claim of its interleaving comments raised {e!r} in {text!r}')
                bad = check_unique(root, True, f'after {key} = deepcopy({key}) and unclaim + claim of its comments')
                if bad:
                    return ('unique:' + bad[0] + ':field-copy-claim', bad[1])
    return None


def _release_then_auto(root: Any, text: str, classes: set) -> Optional[tuple]:
    for m in commentable(root):
        for side in ('leading', 'trailing'):
            if vars(m).get('_' + side + '_comment') is None:
                continue
            before = omap(root)
            getattr(m, 'unclaim_' + side + '_comment')()
            try:
                root.auto_claim_comments()
            except Exception as e:  # noqa: BLE001
                return (f'unclaim-auto:{side}-raised:{type(e).__name__}', f'unclaim_{side}_comment() on a {type(m).__name__} then auto_claim_comments() on the '
                        f'document raised {e!r} in {text!r}')
            classes.add('stage:unclaim-auto')
            if omap(root) != before:
                return (f'unclaim-auto:{side}:{type(m).__name__}', f'unclaim_{side}_comment() on a {type(m).__name__} then auto_claim_comments() on the document '
                        f'does not give the attribution parsing gave: {_mdiff(before, omap(root))} in {text!r}')
    for ms in OPS.index_models(root).values():
        for m in ms:
            for p in S.props_of(m):
                if p.kind != 'clist':
                    continue
                w = getattr(m, p.name)
                if not any(isinstance(x, BlockComment) for x in w):
                    continue
                before = omap(root)
                w.unclaim_interleaving_comments()
                try:
                    root.auto_claim_comments()
                except Exception as e:  # noqa: BLE001
                    return (f'unclaim-auto:interleaving-raised:{type(e).__name__}', f'unclaim_interleaving_comments() on {type(m).__name__}.{p.name} then '
                            f'auto_claim_comments() on the document raised {e!r} in {text!r}')
                classes.add('stage:unclaim-auto')
                if omap(root) != before:
                    return (f'unclaim-auto:interleaving:{type(m).__name__}.{p.name}', f'unclaim_interleaving_comments() on {type(m).__name__}.{p.name} then '
                            f'auto_claim_comments() on the document does not give the attribution parsing gave: {_mdiff(before, omap(root))} in {text!r}')
    return None


def _done(res: Result, classes: set) -> Result:
    res.classes = sorted(classes)
    return res


def _mdiff(a: list, b: list) -> str:
    for x, y in zip(a, b):
        if x != y:
            return f'{x!r} vs {y!r}'
    return f'{len(a)} vs {len(b)} comments'


def _build(tier: str):
    cfg = L.Cfg(max_dirs=4 if tier == 'quick' else 8, comments=0.6, blank=0.3, hazard_text=0.02, exotic=0.02, crlf=0.05)

    def build(rnd: Any) -> dict:
        g = L.G(rnd, cfg)
        chunks = g.document()
        ops = []
        for _ in range(g.n(0, 12)):
            ops.append({'f': 'read', 'what': 'claim', 'mi': g.n(0, 30), 'op': g.pick(c04.CLAIM_OPS), 'ignore': g.p(0.7), 'li': g.n(0, 1)})
        return {'dirs': chunks, 'ops': ops}
    return build


LINE_KINDS = {
    'header': '2000-01-01 open Assets:A\n', 'header2': '2000-01-02 close Assets:A\n', 'txn': '2000-01-01 * "x"\n', 'meta': '  kk: 1\n',
    'posting': '  Assets:A 1 USD\n', 'pmeta': '    pk: 2\n', 'blank': '\n', 'ws': '   \n', 'ignored': '* heading\n', 'option': 'option "a" "b"\n',
}


def _sweep():
    """Every pair of adjacent line kinds with a comment block of either class (and optionally a second block of the other class) in between."""
    contexts = [
        (['header'], ['header2']), (['header'], ['blank', 'header2']), (['header', 'blank'], ['header2']), ([], ['header']), (['header'], []),
        (['header', 'meta'], ['header2']), (['header', 'meta'], ['meta', 'header2']), (['header'], ['meta', 'header2']),
        (['txn'], ['posting', 'header2']), (['txn', 'posting'], ['posting', 'header2']), (['txn', 'posting'], ['header2']), (['txn', 'posting'], []),
        (['txn', 'posting', 'pmeta'], ['posting']), (['txn', 'posting', 'pmeta'], ['pmeta', 'posting']), (['txn', 'posting'], ['pmeta', 'header2']),
        (['txn', 'meta'], ['posting']), (['txn', 'meta'], ['header2']), (['txn', 'meta'], []), (['txn', 'meta'], ['blank', 'header2']),
        (['ignored'], ['header']), (['header'], ['ignored']), (['option'], ['header']), (['header', 'ws'], ['header2']), (['header'], ['ws', 'header2']),
        (['txn', 'posting', 'pmeta'], ['header2']), (['txn', 'posting', 'pmeta'], []), (['header', 'meta'], []), (['header', 'meta'], ['blank']),
    ]
    blocks = [[';c1'], ['  ;c1'], [';c1', ';c2'], ['  ;c1', '    ;c2'], [';c1', '  ;c2'], ['  ;c1', ';c2'], ['    ;c1'],
              # comments with the same text in one gap (tokens compare equal by type and text: identity must decide)
              [';c1', '', ';c1'], [';c1', '', ';c1', '', ';c1'], ['  ;c1', '', '  ;c1']]
    for pre, post in contexts:
        for blk in blocks:
            text = ''.join(LINE_KINDS[k] for k in pre) + ''.join(b + '\n' for b in blk) + ''.join(LINE_KINDS[k] for k in post)
            for strip in (False, True):
                t = text[:-1] if strip and text.endswith('\n') else text
                yield {'dirs': [[['X', t]]], 'ops': []}


def jobs(tier: str) -> list[Job]:
    return [Job('layout-sweep', 'enum', _sweep, exhaustive=True),
            Job('built-documents', 'enum', _built_sweep, exhaustive=True),
            Job('random-layouts', 'hyp', lambda: _build(tier), 2500 if tier == 'quick' else 100000),
            Job('claim-pingpong', 'hyp', lambda: c04._build_pingpong(tier), 1500 if tier == 'quick' else 60000)]
