"""C17 - spacing accessors read and write exactly the whitespace between neighbours."""
from __future__ import annotations

from typing import Any, Optional

from autobean_refactor import models
from autobean_refactor.models import base

from vf.gen import ledger as L, ops as OPS, sweeps
from vf.obs import core as O
from vf.props import common
from vf.run import Job, Result

ID = 'C17'
RULE = ('A generated ledger (G1); read sweep: spacing_before / spacing_after / raw_spacing_* of every tree model (except the File) and every token '
        'compared with a reference computed from the store list (skip zero-width tokens outward from the boundary token, then the maximal run of '
        'whitespace/newline tokens), plus the metamorphic relation left.spacing_after == right.spacing_before for neighbours separated only by one '
        'run; write programs of 1-6 assignments (model or token chosen by selector, both sides, strings over {space, tab, LF, CRLF} of length 0-6): '
        'the printed file must equal the old text with exactly the old run\'s character range replaced, the non-blank characters and their order '
        'are unchanged, a non-empty assignment reads back as assigned, and all tokens outside the run keep identity; a second job interleaves '
        'the assignments with value / slot / list / copy / arithmetic edits and keeps accessing what those edits created or moved. Non-trivial = a zero-width token '
        'is adjacent on the accessed side, or the run contains a newline, or the neighbour is an indent or a comment.')
RULE = RULE + ' Round 8: insert-then-space sweep (every way of putting a tree node into a list, then spacing assignments on the inserted node and the models inside it).'
ASSUMPTIONS = ['read-back after assigning the empty string is not asserted (the accessor then legitimately sees the next run)', 'strings with a bare CR are not assigned']
SHRINK_LISTS = ('ops', 'dirs')
REQUIRED_CLASSES = ('after-edit', 'lf:4', 'read-sweep', 'write:before', 'write:after', 'zero-width-adjacent', 'run-with-newline', 'target:token', 'target:model')
WS = (O.Whitespace, O.Newline)


def ref_run(order: O.Order, boundary: int, step: int) -> tuple[list, bool]:
    """Reference: the tokens of the run on one side of token #boundary, in store order; and whether a zero-width token was skipped."""
    toks = order.tokens
    i = boundary + step
    zw = False
    while 0 <= i < len(toks) and toks[i].raw_text == '':
        zw = True
        i += step
    run = []
    while 0 <= i < len(toks) and isinstance(toks[i], WS):
        if toks[i].raw_text:
            run.append(i)
        i += step
    if step < 0:
        run.reverse()
    return run, zw


def targets(root: Any) -> list:
    out = []
    for m, _ in O.walk(root):
        if isinstance(m, (models.File, O.Repeated)):
            continue
        if hasattr(type(m), 'spacing_before'):
            out.append(m)
    return out


def check_read(root: Any, m: Any, order: O.Order) -> Optional[tuple]:
    try:
        a, b = order.ord(m.first_token), order.ord(m.last_token)
    except Exception:  # noqa: BLE001
        return None
    if a is None or b is None:
        return None
    for side, boundary, step in (('before', a, -1), ('after', b, 1)):
        run, _ = ref_run(order, boundary, step)
        exp_text = ''.join(order.tokens[i].raw_text for i in run)
        try:
            got = getattr(m, 'spacing_' + side)
            raw = list(getattr(m, 'raw_spacing_' + side))
        except Exception as e:  # noqa: BLE001
            return (f'read-raised:{side}:{type(e).__name__}', f'{type(m).__name__}.spacing_{side} raised {e!r}')
        if got != exp_text:
            return (f'read:{side}', f'{type(m).__name__} {O.print_text(m)[:40]!r}.spacing_{side} = {got!r}, the adjacent run is {exp_text!r}')
        if len(raw) != len(run) or any(x is not order.tokens[i] for x, i in zip(raw, run)):
            return (f'read-raw:{side}', f'{type(m).__name__}.raw_spacing_{side} is not exactly the tokens of the adjacent run')
    return None


def run_case(case: dict) -> Result:
    from vf.gen import store as GS
    old = GS.set_lf(int(case.get('lf', 1000)))
    try:
        return _run(case)
    finally:
        GS.restore_lf(old)


def _run(case: dict) -> Result:
    res = Result()
    root = common.parse_case(case, claim=bool(case.get('claim', True)))
    if root is None:
        return Result(discard=True)
    classes = {'lf:%d' % int(case.get('lf', 1000))}
    order = O.Order(root.token_store)
    if case.get('sweep', True):
        classes.add('read-sweep')
        for m in targets(root):
            bad = check_read(root, m, order)
            if bad:
                res.bad(*bad)
                break
        # metamorphic: neighbours separated by exactly one run (with optional zero-width tokens around it)
        if not res.violations:
            toks = order.tokens
            vis = [i for i, t in enumerate(toks) if t.raw_text != '' and not isinstance(t, WS)]
            for i, j in zip(vis, vis[1:]):
                between = toks[i + 1:j]
                k = 0
                while k < len(between) and between[k].raw_text == '':
                    k += 1
                k2 = k
                while k2 < len(between) and isinstance(between[k2], WS) and between[k2].raw_text != '':
                    k2 += 1
                if any(t.raw_text != '' for t in between[k2:]):
                    continue
                left, right = toks[i], toks[j]
                if hasattr(type(left), 'spacing_after') and hasattr(type(right), 'spacing_before'):
                    la, rb = left.spacing_after, right.spacing_before
                    if la != rb:
                        res.bad('neighbours-disagree', f'{left.raw_text!r}.spacing_after = {la!r} but {right.raw_text!r}.spacing_before = {rb!r}')
                        break
    for op in case.get('ops', []):
        if res.violations:
            break
        try:
            a = OPS.resolve(root, op)
        except OPS.NotApplicable:
            continue
        except Exception:  # noqa: BLE001
            if op.get('f') != 'space':
                continue   # preparing an edit failed on a tree an earlier edit broke: the edits are other properties' subject
            raise
        if op.get('f') != 'space':
            # edit history before the spacing accesses: the accessors are defined on the document as it is now, whichever way it got there
            try:
                a.run()
                classes.add('after-edit')
            except Exception:  # noqa: BLE001 - the edits themselves are other properties' subject
                pass
            continue
        m = a.P
        side = op['side']
        new = op['text']
        order = O.Order(root.token_store)
        try:
            fa, lb = order.ord(m.first_token), order.ord(m.last_token)
        except Exception:  # noqa: BLE001
            fa = lb = None
        if fa is None or lb is None:
            # a model reached from the document root whose ends are not in the document's store (an earlier edit broke the tree - C05's
            # subject): the reference cannot say what the adjacent run is, but the accessor must at least answer
            try:
                getattr(m, 'spacing_' + side)
            except Exception as e:  # noqa: BLE001
                res.bad(f'read-raised:{side}:{type(e).__name__}', f'{type(m).__name__}.spacing_{side} raised {e!r} on a model reached from the document root '
                        f'(after {[o for o in case.get("ops", []) if o.get("f") != "space"][-2:]})')
                break
            continue
        boundary, step = (fa, -1) if side == 'before' else (lb, 1)
        run, zw = ref_run(order, boundary, step)
        old_text = ''.join(t.raw_text for t in order.tokens)
        if run:
            start = order.offset[run[0]]
            end = order.offset[run[-1]] + len(order.tokens[run[-1]].raw_text)
        else:
            start = end = order.offset[fa] if side == 'before' else order.offset[lb] + len(order.tokens[lb].raw_text)
        expect = old_text[:start] + new + old_text[end:]
        outside = [t for i, t in enumerate(order.tokens) if i not in set(run)]
        try:
            a.run()
        except Exception as e:  # noqa: BLE001
            res.bad(f'write-raised:{side}:{type(e).__name__}', f'{type(m).__name__}.spacing_{side} = {new!r} raised {e!r}')
            break
        classes.add('write:' + side)
        classes.add('target:token' if isinstance(m, base.RawTokenModel) else 'target:model')
        nb = order.tokens[boundary + step] if 0 <= boundary + step < len(order.tokens) else None
        if zw:
            classes.add('zero-width-adjacent')
        if any('\n' in order.tokens[i].raw_text for i in run):
            classes.add('run-with-newline')
        if zw or any('\n' in order.tokens[i].raw_text for i in run) or type(nb).__name__ in ('Indent', 'BlockComment'):
            res.nontrivial = True
        got = O.print_text(root)
        key = f'{side}:{"empty-run" if not run else "run"}'
        if got != expect:
            res.bad(f'write-text:{key}', f'{type(m).__name__}.spacing_{side} = {new!r}: printed {got!r}, expected only the old run replaced: {expect!r}')
            break
        now = O.store_tokens(root.token_store)
        now_ids = {id(t) for t in now}
        if any(id(t) not in now_ids for t in outside):
            res.bad(f'write-dropped-token:{key}', f'{type(m).__name__}.spacing_{side} = {new!r} removed a token outside the run')
            break
        kept = [t for t in now if id(t) in {id(x) for x in outside}]
        if any(x is not y for x, y in zip(kept, outside)):
            res.bad(f'write-reordered:{key}', f'{type(m).__name__}.spacing_{side} = {new!r} re-ordered tokens outside the run')
            break
        if new != '':
            back = getattr(m, 'spacing_' + side)
            if back != new:
                res.bad(f'read-back:{key}', f'{type(m).__name__}.spacing_{side} = {new!r} reads back {back!r}')
                break
        for t in now:
            if id(t) not in {id(x) for x in outside} and not isinstance(t, WS):
                res.bad(f'write-token-class:{key}', f'assigned spacing produced a {type(t).__name__} token')
                break
    res.classes = sorted(classes)
    return res


def _build(tier: str):
    cfg = L.Cfg(max_dirs=4 if tier == 'quick' else 8)

    def build(rnd: Any) -> dict:
        from vf.gen import store as GS
        g = L.G(rnd, cfg)
        claim = g.p(0.7)
        lf = 4 if g.p(0.35) else 1000   # a small block size makes ordinary documents span many store blocks
        old = GS.set_lf(lf)
        try:
            case = OPS.build_program(rnd, cfg, ['space'], 6, lambda t: common.parse_file(t, claim))
        finally:
            GS.restore_lf(old)
        case['lf'] = lf
        for op in case['ops']:
            if g.p(0.5):
                op['text'] = ''.join(g.pick([' ', ' ', '\t', '\n', '\r\n']) for _ in range(g.n(0, 6)))
        case['claim'] = claim
        case['sweep'] = g.p(0.3)
        return case
    return build


def _build_edited(tier: str):
    """Spacing accesses on models and tokens that earlier edits created or moved (value assignments, slot and list edits, copies, constructed
    donors); the generator keeps working on what the edits inserted."""
    cfg = L.Cfg(max_dirs=3 if tier == 'quick' else 6)
    fams = ['val', 'val', 'opt', 'req', 'list', 'copyins', 'arith', 'space', 'space', 'space', 'space']

    def build(rnd: Any) -> dict:
        g = L.G(rnd, cfg)
        claim = g.p(0.7)
        case = OPS.build_program(rnd, cfg, fams, 8, lambda t: common.parse_file(t, claim), stick=0.5)
        for op in case['ops']:
            if op.get('f') == 'space' and g.p(0.5):
                op['text'] = ''.join(g.pick([' ', ' ', '\t', '\n', '\r\n']) for _ in range(g.n(0, 6)))
        case['claim'] = claim
        case['sweep'] = False
        case['lf'] = 1000
        return case
    return build


def jobs(tier: str) -> list[Job]:
    return [Job('spacing', 'hyp', lambda: _build(tier), 2500 if tier == 'quick' else 80000),
            Job('spacing-after-edits', 'hyp', lambda: _build_edited(tier), 2500 if tier == 'quick' else 80000),
            Job('insert-then-space', 'enum', sweeps.insert_then_space, exhaustive=True)]
