"""C12 - token value, raw text and lexer agree for every value in the domain."""
from __future__ import annotations

import datetime
import decimal
import itertools
import re
from typing import Any, Optional

import lark

from autobean_refactor import models
from autobean_refactor.models.block_comment import BlockComment

from vf.gen import donors as D, ledger as L, ops as OPS
from vf.props import common
from vf.run import Job, Result

ID = 'C12'
RULE = ('Per token class (ESCAPED_STRING, BLOCK_COMMENT, INLINE_COMMENT, DATE, NUMBER, ACCOUNT, CURRENCY, TAG, LINK, META_KEY, POSTING_FLAG, '
        'TRANSACTION_FLAG, BOOL, INDENT): values from the class\'s value domain, lexemes of its terminal, candidate texts over a class-specific hazard '
        'alphabet judged by a harness-side transcription of the terminal\'s regular expression, and assignment sequences (value / raw_text / indent, '
        'length 1-6). Strings and comments draw from an alphabet weighted towards quote, backslash, semicolon, blanks, CR, LF, FF, VT, FS-US, NEL, '
        'U+2028/9 and astral characters. Bounded-exhaustive: every string of length <= 3 over a 12-symbol hazard alphabet for the three string classes; '
        'dates: every day of years 1-3, 999-1001, 1999-2001 and 9999 plus every 11th day of the 400-year cycle (thorough: every day of the cycle and of '
        'years 1-999); numbers d.dddd for all digit patterns up to 4 (thorough 6) digits at exponents 0..-8. Oracles: from_value(v).value == v and '
        'parse_token(from_value(v).raw_text) is one token of the class with value v; from_raw_text keeps a lexeme verbatim and agrees with parse_token; '
        'texts outside the transcribed language are rejected by parse_token; after every assignment from_raw_text(raw_text) has the token\'s value '
        '(and indent); comment lexemes parse as a File, string lexemes inside an option directive. Non-trivial = value/lexeme with a hazard '
        'character, an escape, a line break, or (dates/numbers) a boundary component.')
ASSUMPTIONS = [
    'domains are the lexical capacity of each terminal: no line break in inline-comment values (values beginning with a blank are enumerated: open finding), no bare CR in comment values, non-negative plain-notation decimals for NUMBER, '
    'flag characters for TRANSACTION_FLAG, currencies other than TRUE/FALSE/NULL',
    'from_value(x) == token is not asserted (formatting is documented as not preserved)',
]
SHRINK_LISTS = ('ops',)
REQUIRED_CLASSES = tuple('cls:' + c for c in ['ESCAPED_STRING', 'BLOCK_COMMENT', 'INLINE_COMMENT', 'DATE', 'NUMBER', 'ACCOUNT', 'CURRENCY', 'TAG', 'LINK',
                                              'META_KEY', 'POSTING_FLAG', 'TRANSACTION_FLAG', 'BOOL']) + ('kind:value', 'kind:lexeme', 'kind:candidate', 'kind:sequence', 'rejected-candidate')

HAZ12 = ['"', '\\', ';', ' ', '\n', '\r\n', '\x0c', '\u2028', 'a', '\t', '\x85', 'n']

# harness-side transcription of the terminals (ground truth for "is this text a lexeme of the class")
NA = r'[^\x00-\x7f]'
PATTERNS = {
    'ESCAPED_STRING': re.compile(r'"(?:[^"\\]|\\.)*"', re.S),
    'INLINE_COMMENT': re.compile(r';[^\r\n]*'),
    'BLOCK_COMMENT': re.compile(r';[^\r\n]*(?:\r*\n;[^\r\n]*)*|[ \t]+;[^\r\n]*(?:\r*\n[ \t]+;[^\r\n]*)*'),
    'DATE': re.compile(r'[0-9]{4,}[-/][0-9]{1,2}[-/][0-9]{1,2}'),
    'NUMBER': re.compile(r'(?:[0-9]{1,3}(?:,[0-9]{3})+|[0-9]+)(?:\.[0-9]*)?'),
    'ACCOUNT': re.compile(rf'(?:[A-Z]|{NA})(?:[A-Za-z0-9\-]|{NA})*(?::(?:[A-Z0-9]|{NA})(?:[A-Za-z0-9\-]|{NA})*)+'),
    'CURRENCY': re.compile(r"[A-Z][A-Z0-9'._-]*[A-Z0-9]|/[A-Z0-9'._-]*[A-Z](?:[A-Z0-9'._-]*[A-Z0-9])?"),
    'TAG': re.compile(r'#[A-Za-z0-9\-_/.]+'),
    'LINK': re.compile(r'\^[A-Za-z0-9\-_/.]+'),
    'META_KEY': re.compile(r'[a-z][a-zA-Z0-9\-_]+:'),
    'POSTING_FLAG': re.compile(r'[*!&#?%PSTCURM]'),
    'TRANSACTION_FLAG': re.compile(r'[*!&#?%PSTCURM]|txn'),
    'BOOL': re.compile(r'TRUE|FALSE'),
}
CAND_ALPHABET = {
    'ESCAPED_STRING': ['"', '\\', 'a', '\n', ' ', ';'],
    'INLINE_COMMENT': [';', ' ', 'a', '\r', '\n', '\t', '"'],
    'BLOCK_COMMENT': [';', ' ', 'a', '\n', '\r', '\t'],
    'DATE': list('0129-/') + ['2000', '13', '31'],
    'NUMBER': list('019,.') + ['000', '-'],
    'ACCOUNT': list('AaZ0:-é') + ['Assets'],
    'CURRENCY': list("AZ09'._-/a") + ['TRUE'],
    'TAG': list('#^aZ0-_/.! '),
    'LINK': list('#^aZ0-_/.! '),
    'META_KEY': list('aZ0-_: '),
    'POSTING_FLAG': list('*!&#?%PSTCURMxt'),
    'TRANSACTION_FLAG': list('*!PMtxn'),
    'BOOL': ['TRUE', 'FALSE', 'T', 'true', 'E'],
}
VALUE_CLASSES = ['ESCAPED_STRING', 'BLOCK_COMMENT', 'INLINE_COMMENT', 'DATE', 'NUMBER', 'ACCOUNT', 'CURRENCY', 'TAG', 'LINK', 'META_KEY', 'POSTING_FLAG',
                 'TRANSACTION_FLAG', 'BOOL']
HAZARD_CHARS = set('"\\;\t\r\n\x0c\x0b\x1c\x1d\x1e\x85\u2028\u2029')


def parse_token(text: str, cls: Any) -> Any:
    return common.parser().parse_token(text, cls)


def same_value(a: Any, b: Any) -> bool:
    if isinstance(a, decimal.Decimal) or isinstance(b, decimal.Decimal):
        return isinstance(a, decimal.Decimal) and isinstance(b, decimal.Decimal) and a == b
    return type(a) == type(b) and a == b


def valid_meaning(rule: str, s: str) -> bool:
    if rule == 'DATE':
        y, m, d = map(int, re.split('[-/]', s))
        try:
            datetime.date(y, m, d)
            return True
        except ValueError:
            return False
    return True


def check_value(rule: str, v: Any, indent: Optional[str] = None) -> Optional[tuple]:
    cls = models.TOKEN_MODELS[rule]
    try:
        t = cls.from_value(v, indent=indent) if indent is not None else cls.from_value(v)
    except Exception as e:  # noqa: BLE001
        return (f'from_value-raised:{rule}:{type(e).__name__}', f'{rule}.from_value({v!r}) raised {e!r}')
    if not same_value(t.value, v):
        return (f'from_value-value:{rule}', f'{rule}.from_value({v!r}).value == {t.value!r}')
    if indent is not None and t.indent != indent:
        return (f'from_value-indent:{rule}', f'{rule}.from_value({v!r}, indent={indent!r}).indent == {t.indent!r}')
    raw = t.raw_text
    try:
        back = parse_token(raw, cls)
    except lark.exceptions.LarkError as e:
        return (f'format-not-lexable:{rule}', f'{rule}.from_value({v!r}) prints {raw!r}, which is not lexed as one {rule} token: {str(e)[:120]}')
    except Exception as e:  # noqa: BLE001
        return (f'format-reparse-raised:{rule}:{type(e).__name__}', f'{rule}.from_value({v!r}) prints {raw!r}; reading it back raised {e!r}')
    if not same_value(back.value, v):
        return (f'format-roundtrip:{rule}', f'{rule}.from_value({v!r}) prints {raw!r}, which reads back as {back.value!r}')
    if indent is not None and back.indent != indent:
        return (f'format-roundtrip-indent:{rule}', f'{rule}.from_value({v!r}, indent={indent!r}) prints {raw!r}, which reads back with indent {back.indent!r}')
    return None


def check_lexeme(rule: str, s: str) -> Optional[tuple]:
    cls = models.TOKEN_MODELS[rule]
    try:
        t = cls.from_raw_text(s)
    except Exception as e:  # noqa: BLE001
        return (f'from_raw_text-raised:{rule}:{type(e).__name__}', f'{rule}.from_raw_text({s!r}) raised {e!r} for a lexeme of the terminal')
    if t.raw_text != s:
        return (f'raw-text-not-verbatim:{rule}', f'{rule}.from_raw_text({s!r}).raw_text == {t.raw_text!r}')
    try:
        back = parse_token(s, cls)
    except Exception as e:  # noqa: BLE001
        return (f'lexeme-rejected:{rule}:{type(e).__name__}', f'parse_token({s!r}, {rule}) raised {e!r} for a lexeme of the terminal')
    if not same_value(back.value, t.value) or back.raw_text != s:
        return (f'lexer-disagrees:{rule}', f'parse_token({s!r}) gives {back.value!r} / {back.raw_text!r}, from_raw_text gives {t.value!r}')
    return None


def check_embedding(rule: str, s: str) -> Optional[tuple]:
    if rule == 'BLOCK_COMMENT':
        text = s + '\n2000-01-01 open Assets:A\n'
        want = [s]
    elif rule == 'ESCAPED_STRING':
        text = 'option "k" ' + s + '\n'
        want = ['"k"', s]
    elif rule == 'INLINE_COMMENT':
        text = '2000-01-01 open Assets:A ' + s + '\n'
        want = [s]
    else:
        return None
    try:
        f = common.parse_file(text)
    except Exception as e:  # noqa: BLE001
        return (f'embedding-rejected:{rule}:{type(e).__name__}', f'{text!r} (a {rule} lexeme embedded in a file) raised {e!r}')
    got = [t.raw_text for t in f.token_store if type(t).RULE == rule]
    if got != want:
        return (f'embedding-tokens:{rule}', f'{text!r}: {rule} tokens {got!r}, expected {want!r}')
    return None


def nontrivial(rule: str, x: Any) -> bool:
    if isinstance(x, str):
        return bool(set(x) & HAZARD_CHARS) or any(ord(c) > 0xffff for c in x) or (rule in ('DATE', 'NUMBER') and (x.startswith('0') or len(x) > 10))
    if isinstance(x, datetime.date):
        return x.year < 1000 or x.year == 9999 or (x.month, x.day) in ((2, 29), (12, 31), (1, 1))
    if isinstance(x, decimal.Decimal):
        return x == 0 or x.as_tuple().exponent <= -6 or x.adjusted() >= 12
    return False


def run_case(case: dict) -> Result:
    res = Result()
    rule = case['cls']
    kind = case['kind']
    cls = models.TOKEN_MODELS[rule]
    classes = {'cls:' + rule, 'kind:' + kind}
    if kind == 'value':
        v = D.decode(case['v'])
        bad = check_value(rule, v, case.get('indent'))
        res.nontrivial = nontrivial(rule, v)
        if bad and rule == 'INLINE_COMMENT' and isinstance(v, str) and v.startswith(' '):
            # the statement's domain is all strings; the class's parser drops every blank behind the ';' (open finding)
            classes.add('inline-leading-blank')
            res.bad('inline-comment-leading-blank-lost', bad[1])
        elif bad:
            res.bad(*bad)
    elif kind == 'lexeme':
        s = case['t']
        if not valid_meaning(rule, s):
            return Result(discard=True)
        bad = check_lexeme(rule, s) or check_embedding(rule, s)
        res.nontrivial = nontrivial(rule, s)
        if bad:
            res.bad(*bad)
    elif kind == 'candidate':
        s = case['t']
        is_lexeme = PATTERNS[rule].fullmatch(s) is not None
        if is_lexeme and valid_meaning(rule, s):
            classes.add('accepted-candidate')
            bad = check_lexeme(rule, s)
            if bad:
                res.bad(bad[0].replace(':', ':candidate:', 1), bad[1] + ' (the harness\'s transcription of the terminal matches this text)')
        elif not is_lexeme:
            classes.add('rejected-candidate')
            try:
                tok = parse_token(s, cls)
                res.bad(f'non-lexeme-accepted:{rule}', f'parse_token({s!r}, {rule}) returned {tok!r} although the text is outside the terminal\'s language')
            except (lark.exceptions.LarkError, ValueError):
                pass
            except Exception as e:  # noqa: BLE001
                res.bad(f'non-lexeme-crash:{rule}:{type(e).__name__}', f'parse_token({s!r}, {rule}) raised {e!r}')
        res.nontrivial = True
    elif kind == 'sequence':
        try:
            t = cls.from_raw_text(case['t'])
        except Exception:  # noqa: BLE001
            return Result(discard=True)
        for step in case['ops']:
            try:
                if step['k'] == 'value':
                    t.value = D.decode(step['v'])
                elif step['k'] == 'raw':
                    if not valid_meaning(rule, step['t']):
                        continue
                    t.raw_text = step['t']
                elif step['k'] == 'indent' and isinstance(t, BlockComment):
                    t.indent = step['t']
                else:
                    continue
            except Exception as e:  # noqa: BLE001
                res.bad(f'assignment-raised:{rule}:{step["k"]}:{type(e).__name__}', f'{rule} token {t.raw_text!r}: {step} raised {e!r}')
                break
            try:
                ref = cls.from_raw_text(t.raw_text)
            except Exception as e:  # noqa: BLE001
                res.bad(f'raw-text-unreadable:{rule}:{step["k"]}', f'after {step} the {rule} token\'s raw text {t.raw_text!r} cannot be read back: {e!r}')
                break
            if not same_value(ref.value, t.value) or (isinstance(t, BlockComment) and ref.indent != t.indent):
                res.bad(f'value-raw-diverge:{rule}:{step["k"]}', f'after {step}: value {t.value!r} (indent {getattr(t, "indent", None)!r}) but raw text {t.raw_text!r} '
                        f'means {ref.value!r} (indent {getattr(ref, "indent", None)!r})')
                break
            if step['k'] == 'value' and not same_value(t.value, D.decode(step['v'])):
                res.bad(f'value-not-kept:{rule}', f'after {step}: value reads {t.value!r}')
                break
            try:
                back = parse_token(t.raw_text, cls)
                if not same_value(back.value, t.value):
                    res.bad(f'lexer-disagrees-after:{rule}:{step["k"]}', f'after {step}: the lexer reads {t.raw_text!r} as {back.value!r}, the token says {t.value!r}')
                    break
            except Exception as e:  # noqa: BLE001
                res.bad(f'not-lexable-after:{rule}:{step["k"]}', f'after {step}: raw text {t.raw_text!r} is not one {rule} token: {str(e)[:100]}')
                break
        res.nontrivial = len(case['ops']) >= 2
    res.classes = sorted(classes)
    return res


# --------------------------------------------------------------------------- generation

def _value_desc(g: L.G, rule: str) -> dict:
    return OPS.token_value(g, rule)


def _build(tier: str):
    cfg = L.Cfg(hazard_text=0.5, exotic=0.3)

    def build(rnd: Any) -> dict:
        g = L.G(rnd, cfg)
        rule = g.pick(VALUE_CLASSES)
        kind = g.pick(['value', 'value', 'lexeme', 'lexeme', 'candidate', 'sequence'])
        if kind == 'value':
            case = {'cls': rule, 'kind': kind, 'v': _value_desc(g, rule)}
            if rule == 'BLOCK_COMMENT':
                case['indent'] = g.chars(' \t', 0, 4)
            return case
        if kind == 'lexeme':
            return {'cls': rule, 'kind': kind, 't': OPS.token_lexeme(g, rule)}
        if kind == 'candidate':
            return {'cls': rule, 'kind': kind, 't': ''.join(g.pick(CAND_ALPHABET[rule]) for _ in range(g.n(0, 6)))}
        ops = []
        for _ in range(g.n(1, 6)):
            k = g.pick(['value', 'value', 'raw'] + (['indent'] if rule == 'BLOCK_COMMENT' else []))
            if k == 'value':
                ops.append({'k': k, 'v': _value_desc(g, rule)})
            elif k == 'raw':
                ops.append({'k': k, 't': OPS.token_lexeme(g, rule)})
            else:
                ops.append({'k': k, 't': g.chars(' \t', 0, 4)})
        return {'cls': rule, 'kind': 'sequence', 't': OPS.token_lexeme(g, rule), 'ops': ops}
    return build


def _enum_strings():
    for n in range(0, 4):
        for combo in itertools.product(HAZ12, repeat=n):
            s = ''.join(combo)
            yield {'cls': 'ESCAPED_STRING', 'kind': 'value', 'v': {'vt': 'str', 'v': s}}
            if '\r' not in s.replace('\r\n', ''):
                yield {'cls': 'BLOCK_COMMENT', 'kind': 'value', 'v': {'vt': 'str', 'v': s}, 'indent': '' if n % 2 else '  '}
            if '\r' not in s and '\n' not in s:
                yield {'cls': 'INLINE_COMMENT', 'kind': 'value', 'v': {'vt': 'str', 'v': s}}


def _enum_dates(full: bool):
    def days(y0: int, y1: int, step: int = 1):
        d = datetime.date(y0, 1, 1).toordinal()
        end = datetime.date(y1, 12, 31).toordinal()
        while d <= end:
            yield datetime.date.fromordinal(d)
            d += step
    ranges = [days(1, 3), days(999, 1001), days(1999, 2001), days(9999, 9999)]
    ranges.append(days(1600, 1999) if full else days(1600, 1999, 11))
    if full:
        ranges.append(days(4, 998))
    for r in ranges:
        for d in r:
            yield {'cls': 'DATE', 'kind': 'value', 'v': {'vt': 'date', 'v': d.isoformat()}}


def _enum_numbers(digits: int):
    for nd in range(1, digits + 1):
        for n in range(10 ** (nd - 1) if nd > 1 else 0, 10 ** nd, 1 if nd <= 3 else 7):
            for e in (0, -1, -2, -4, -6, -7, -8):
                yield {'cls': 'NUMBER', 'kind': 'value', 'v': {'vt': 'dec', 'v': str(decimal.Decimal(n).scaleb(e))}}


def jobs(tier: str) -> list[Job]:
    if tier == 'quick':
        return [Job('random', 'hyp', lambda: _build(tier), 12000),
                Job('enum-strings', 'enum', _enum_strings, exhaustive=True),
                Job('enum-dates', 'enum', lambda: _enum_dates(False), exhaustive=True),
                Job('enum-numbers', 'enum', lambda: _enum_numbers(4), exhaustive=True)]
    return [Job('random', 'hyp', lambda: _build(tier), 400000),
            Job('enum-strings', 'enum', _enum_strings, exhaustive=True),
            Job('enum-dates', 'enum', lambda: _enum_dates(True), exhaustive=True),
            Job('enum-numbers', 'enum', lambda: _enum_numbers(6), exhaustive=True)]


def _fuzz_spec() -> dict:
    """libFuzzer over (class selector byte, text): texts the harness's transcription of the terminal accepts must be handled by from_raw_text and
    the lexer alike, all others must be rejected by the lexer."""
    import random
    rnd = random.Random(102)
    g = L.G(rnd, L.Cfg(hazard_text=0.5, exotic=0.3))
    seeds = [bytes([i % len(VALUE_CLASSES)]) + OPS.token_lexeme(g, VALUE_CLASSES[i % len(VALUE_CLASSES)]).encode('utf-8') for i in range(130)]
    return {'runs': 600000, 'max_len': 60, 'seeds': seeds}
