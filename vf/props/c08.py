"""C08 - reported line/column positions always match the printed text."""
from __future__ import annotations

from typing import Any, Optional

from vf.gen import store as gs
from vf.run import Job, Result

ID = 'C08'
RULE = ('(a) store histories as in C07 (load factors 2..8, thorough 10 and 1000) with raw_text updates that add/remove line breaks; '
        '(b) generated ledgers (G1) parsed at load factor 4 or 1000, then programs of token value/raw_text/indent assignments and '
        'structural edits; (c) editor error message line of an include that matches nothing. Oracle: (line, column) recomputed by the '
        'harness from the concatenated token texts; index = ordinal. Non-trivial = a position query for a token after an updated '
        'token (same or later block) following an update that changed the number of line breaks or the last line length, or after a '
        'multi-block splice.')
ASSUMPTIONS = ['offsets are accumulated by the harness from raw_text in iteration order (iteration order itself is C07\'s)']
SHRINK_LISTS = ('ops', 'init', 'dirs')
REQUIRED_CLASSES = ('store:update-lines-changed', 'store:multi-block-span')


def positions(texts: list[str]) -> list[tuple[int, int]]:
    out = []
    line = col = 0
    for t in texts:
        out.append((line, col))
        nl = t.count('\n')
        if nl:
            line += nl
            col = len(t) - t.rfind('\n') - 1
        else:
            col += len(t)
    return out


def check_positions(store: Any, toks: list, what: str, kind: str) -> Optional[tuple]:
    exp = positions([t.raw_text for t in toks])
    for i, t in enumerate(toks):
        try:
            p = store.get_position(t)
            idx = store.get_index(t)
        except Exception as e:  # noqa: BLE001
            return (f'raised-query:{kind}:{type(e).__name__}', f'position query on token #{i} raised {e!r} after {what}')
        if (p.line, p.column) != exp[i]:
            return (f'position:{kind}', f'get_position(token #{i} {t.raw_text!r}) = ({p.line},{p.column}), text says {exp[i]} after {what}; '
                    f'tokens={[x.raw_text for x in toks][:40]!r}')
        if idx != i:
            return (f'index:{kind}', f'get_index(token #{i}) = {idx} after {what}')
    return None


def run_store_case(case: dict) -> Result:
    res = Result()
    classes = set()

    def after(store: Any, model: list, step: gs.Step) -> Optional[tuple]:
        if step.kind == 'update':
            classes.add('store:update')
            if step.lines_changed:
                classes.add('store:update-lines-changed')
        if step.span_blocks >= 2:
            classes.add('store:multi-block-span')
        if list(store) != model:
            return None  # ordering problems are C07's; positions are only defined over the agreed order
        return check_positions(store, model, str(step.op), step.kind)

    r = gs.replay(case, after)
    if r and not r[0].startswith(('raised:', 'not-refused:')):
        res.bad(*r)
    res.classes = sorted(classes)
    res.nontrivial = bool(classes & {'store:update-lines-changed', 'store:multi-block-span'})
    return res


def run_case(case: dict) -> Result:
    kind = case.get('kind', 'store')
    if kind == 'store':
        return run_store_case(case)
    if kind == 'doc':
        from vf.props import c08_doc
        return c08_doc.run_doc_case(case)
    if kind == 'editor':
        from vf.props import c08_doc
        return c08_doc.run_editor_case(case)
    return Result(discard=True)


def _store_builder(max_ops: int, big: bool):
    def build(rnd: Any) -> dict:
        c = gs.build_history(rnd, max_ops, big=big)
        # bias towards updates
        extra = rnd.randint(0, 4)
        for _ in range(extra):
            pos = rnd.randint(0, len(c['ops']))
            c['ops'].insert(pos, {'op': 'update', 't': rnd.randint(0, 200), 'text': rnd.choice(gs.TEXTS)})
        c['kind'] = 'store'
        return c
    return build


def jobs(tier: str) -> list[Job]:
    js = []
    if tier == 'quick':
        js.append(Job('store-histories', 'hyp', lambda: _store_builder(25, False), 5000))
    else:
        js.append(Job('store-histories', 'hyp', lambda: _store_builder(100, True), 100000))
    try:
        from vf.props import c08_doc
        js.extend(c08_doc.jobs(tier))
    except ImportError:
        pass
    return js
