"""C15 - constructed models are well-formed and parse back to the same content."""
from __future__ import annotations

import datetime
import decimal
import inspect
from typing import Any, Optional

import lark

from autobean_refactor import models
from autobean_refactor.models import base
from autobean_refactor.models.block_comment import BlockComment

from vf.gen import donors as D, ledger as L
from vf.obs import core as O
from vf.props import common
from vf.run import HarnessError, Job, Result

ID = 'C15'
RULE = ('Signature-driven constructor arguments (G5): for every model class with from_value / from_children the arguments are derived from the '
        'signature through a parameter-role table (a parameter without a role is a harness error); every optional argument is independently '
        'present/absent (sweep job: all subsets of up to 6 optionals per class, once), lists have 0-3 elements, strings/comments come from the hazard '
        'domains, numbers may be negative, custom value sequences contain consecutive signed numbers and amounts; nested construction (postings with '
        'cost and price inside transactions, meta with every value kind, directives assembled into a File). Oracle: the constructed tree satisfies '
        'the structural invariants and spans its whole store; parse(print(m), type(m)) succeeds; semantic digests and block-comment lines are equal; the leading comment on the first line / trailing comment on the last line belongs to the same part of the model before and after; '
        'for from_value the value-level getters return the arguments (payee implies narration). Non-trivial = >= 2 optional arguments present, or a '
        'list argument of length >= 2, or a string needing an escape, or a negative number.')
ASSUMPTIONS = ['parse(...) == constructed is not asserted (parsed bodies carry a dedent mark)',
               'CostSpec.from_value with both numbers and no currency is a documented rejection (ValueError)']
SHRINK_LISTS = ()
REQUIRED_CLASSES = ('comment-owners-compared', 'how:from_value', 'how:from_children', 'cls:Transaction', 'cls:Posting', 'cls:File', 'cls:Custom', 'cls:CostSpec', 'cls:MetaItem', 'cls:Open')

EXPR_CLASSES = ['NumberAddExpr', 'NumberMulExpr', 'NumberUnaryExpr', 'NumberParenExpr']
CLASSES = ['Amount', 'Tolerance', 'UnitPrice', 'TotalPrice', 'CompoundAmount', 'UnitCost', 'TotalCost', 'CostSpec', 'NumberExpr', 'MetaItem', 'Posting',
           'Balance', 'Close', 'Commodity', 'Custom', 'Document', 'Event', 'IgnoredLine', 'Include', 'Note', 'Open', 'Option', 'Pad', 'Plugin', 'Popmeta',
           'Poptag', 'Price', 'Pushmeta', 'Pushtag', 'Query', 'Transaction', 'File']
DIRECTIVES = ['Balance', 'Close', 'Commodity', 'Custom', 'Document', 'Event', 'IgnoredLine', 'Include', 'Note', 'Open', 'Option', 'Pad', 'Plugin', 'Popmeta',
              'Poptag', 'Price', 'Pushmeta', 'Pushtag', 'Query', 'Transaction']
INDENTED = ('Posting', 'MetaItem')


class Spec:
    """A construction recipe as plain data: {'cls', 'how', 'args': {name: argspec}}; argspec = value-desc | nested Spec | list."""


def plan(g: L.G, cname: str, how: str, depth: int = 0, present: Optional[set] = None, indent: Optional[str] = None) -> dict:
    if cname in EXPR_CLASSES:
        return plan_expr(g, cname, depth)
    cls = getattr(models, cname)
    fn = getattr(cls, how)
    sig = inspect.signature(fn)
    args: dict = {}
    for name, prm in sig.parameters.items():
        optional = prm.default is not inspect.Parameter.empty or 'Optional' in str(prm.annotation) or 'NoneType' in str(prm.annotation)
        has_default = prm.default is not inspect.Parameter.empty
        if present is not None:
            include = name in present or not has_default
        else:
            include = (not has_default) or g.p(0.5)
        if not include:
            continue
        nullable = ('Optional' in str(prm.annotation) or 'NoneType' in str(prm.annotation)) and not has_default
        if nullable and (present is None and g.p(0.35) or present is not None and name not in present):
            args[name] = {'vt': 'none', 'v': None}
            continue
        args[name] = arg_for(g, cname, how, name, depth, indent)
    return {'cls': cname, 'how': how, 'args': args}


NUMBER_POOL = ['2000', '1999', '12345', '1', '2', '12', '31', '7', '0', '10', '3']


def plan_expr(g: L.G, cname: str, depth: int = 0) -> dict:
    """An arithmetic tree assembled bottom-up with the from_children constructors (operands / ops tuples, unary, parentheses).  Integer
    operands of 4-5 and 1-2 digits are frequent: an expression printed without blanks around '/' or '-' would read as a date."""
    def number() -> dict:
        if g.p(0.6):
            return {'vt': 'donor', 'v': {'k': 'NUMBER', 't': g.pick(NUMBER_POOL)}}
        return {'vt': 'donor', 'v': {'k': 'NUMBER', 't': _dec_text(D.decimal_value(g).copy_abs())}}

    def atom(d: int) -> dict:
        x = g.n(0, 9)
        if d >= 3 or x <= 5:
            return number()
        if x <= 7:
            return plan_expr(g, 'NumberUnaryExpr', d + 1)
        return plan_expr(g, 'NumberParenExpr', d + 1)
    if cname == 'NumberUnaryExpr':
        return {'cls': cname, 'how': 'from_children', 'args': {'unary_op': {'vt': 'donor', 'v': {'k': 'UNARY_OP', 't': g.pick('+-')}}, 'operand': atom(depth + 1)}}
    if cname == 'NumberParenExpr':
        return {'cls': cname, 'how': 'from_children', 'args': {'inner_expr': plan_expr(g, 'NumberAddExpr', depth + 1)}}
    n = g.pick([1, 1, 2, 2, 3, 3, 4])
    if cname == 'NumberMulExpr':
        ops = [{'vt': 'donor', 'v': {'k': 'MUL_OP', 't': g.pick('*//')}} for _ in range(n - 1)]
        return {'cls': cname, 'how': 'from_children', 'args': {'operands': {'vt': 'tuple', 'v': [atom(depth) for _ in range(n)]}, 'ops': {'vt': 'tuple', 'v': ops}}}
    ops = [{'vt': 'donor', 'v': {'k': 'ADD_OP', 't': g.pick('+--')}} for _ in range(n - 1)]
    return {'cls': 'NumberAddExpr', 'how': 'from_children',
            'args': {'operands': {'vt': 'tuple', 'v': [plan_expr(g, 'NumberMulExpr', depth) for _ in range(n)]}, 'ops': {'vt': 'tuple', 'v': ops}}}


def constructed_number(g: L.G, depth: int) -> dict:
    return {'cls': 'NumberExpr', 'how': 'from_children', 'args': {'number_add_expr': plan_expr(g, 'NumberAddExpr', depth + 1)}}


def arg_for(g: L.G, cname: str, how: str, name: str, depth: int, indent: Optional[str]) -> Any:
    val = how == 'from_value'
    S_ = lambda: {'vt': 'str', 'v': D.string_value(g)}  # noqa: E731

    def tok(kind: str, **kw: Any) -> dict:
        if kind == 'number_expr' and g.p(0.3):
            return constructed_number(g, depth)   # assembled with from_children all the way down instead of parsed from text
        return {'vt': 'donor', 'v': D.make(kind, g, **kw)}
    ind = indent or g.pick(['  ', '    ', '\t', ' \t'])
    if name == 'date':
        return {'vt': 'date', 'v': D.date_value(g).isoformat()} if val or cname == 'CostSpec' else tok('DATE')
    if name in ('account', 'source_account'):
        return {'vt': 'str', 'v': g.account()[1]} if val else tok('ACCOUNT')
    if name == 'currency':
        if cname in ('UnitPrice', 'TotalPrice', 'Posting', 'CostSpec') and False:
            pass
        return {'vt': 'str', 'v': g.currency_text()} if val else tok('CURRENCY')
    if name in ('number', 'number_per', 'number_total'):
        return {'vt': 'dec', 'v': str(D.decimal_value(g))} if val else tok('number_expr')
    if name == 'tolerance':
        return {'vt': 'dec', 'v': str(D.decimal_value(g).copy_abs())} if val else tok('tolerance')
    if name == 'currencies':
        return [({'vt': 'str', 'v': g.currency_text()} if val else tok('CURRENCY')) for _ in range(g.pick([0, 1, 2, 3]))]
    if name in ('booking', 'type', 'description', 'filename', 'comment', 'name', 'query_string', 'config', 'label', 'payee', 'narration'):
        return S_() if val or cname == 'CostSpec' else tok('ESCAPED_STRING')
    if name == 'key':
        if cname == 'Option':
            return S_() if val else tok('ESCAPED_STRING')
        return {'vt': 'str', 'v': g.meta_key()[1][:-1]} if val else tok('META_KEY')
    if name == 'value' and cname == 'NumberExpr':
        return {'vt': 'dec', 'v': str(D.decimal_value(g))}
    if name == 'value':
        if cname == 'Option':
            return S_() if val else tok('ESCAPED_STRING')
        if val:
            return D.value('meta_value', g)
        return tok(g.pick(['ESCAPED_STRING', 'ACCOUNT', 'DATE', 'CURRENCY', 'TAG', 'BOOL', 'NULL', 'number_expr', 'amount']))
    if name == 'tag':
        return {'vt': 'str', 'v': g.tag()[1][1:]} if val else tok('TAG')
    if name in ('tags', 'links'):
        return [{'vt': 'str', 'v': g.tag()[1][1:]} for _ in range(g.pick([0, 1, 2, 3]))]
    if name == 'tags_links':
        return [tok(g.pick(['TAG', 'LINK'])) for _ in range(g.pick([0, 1, 2, 3]))]
    if name == 'flag':
        if cname == 'Posting':
            return {'vt': 'str', 'v': g.pick(L.FLAGS)} if val else tok('POSTING_FLAG')
        return {'vt': 'str', 'v': g.pick(L.FLAGS)} if val else tok('TRANSACTION_FLAG')
    if name == 'leading_comment' or name == 'trailing_comment':
        if val:
            return {'vt': 'str', 'v': D.comment_value(g)}
        if cname in INDENTED:
            return tok('BLOCK_COMMENT_IND', indent=ind)
        return tok('BLOCK_COMMENT')
    if name == 'inline_comment':
        return {'vt': 'str', 'v': D.inline_comment_value(g)} if val else tok('INLINE_COMMENT')
    if name == 'indent':
        return {'vt': 'str', 'v': ind} if val else {'vt': 'donor', 'v': {'k': 'INDENT', 't': ind}}
    if name == 'indent_by':
        return {'vt': 'str', 'v': g.pick(['    ', '  ', '\t', ' '])}
    if name == 'meta':
        if val:
            return {'vt': 'dict', 'v': [[g.meta_key()[1][:-1] + str(i), D.value('meta_value', g)] for i in range(g.pick([0, 1, 2, 3]))]}
        mind = (ind + '  ') if cname == 'Posting' else g.pick(['  ', '    '])
        items = []
        for _ in range(g.pick([0, 1, 2, 3])):
            if g.p(0.2):
                items.append(tok('BLOCK_COMMENT_IND', indent=mind))
            elif depth < 2 and g.p(0.5):
                items.append(plan(g, 'MetaItem', g.pick(['from_value', 'from_children']), depth + 1, indent=mind))
            else:
                items.append(tok('meta_item', indent=mind))
        return items
    if name == 'cost':
        return plan(g, 'CostSpec', g.pick(['from_value', 'from_children']), depth + 1)
    if name == 'price':
        return plan(g, g.pick(['UnitPrice', 'TotalPrice']), g.pick(['from_value', 'from_children']), depth + 1)
    if name == 'amount':
        return plan(g, 'Amount', g.pick(['from_value', 'from_children']), depth + 1)
    if name == 'postings':
        pind = g.pick(['  ', '    ', '\t'])
        return [plan(g, 'Posting', g.pick(['from_value', 'from_children']), depth + 1, indent=pind) for _ in range(g.pick([0, 1, 2, 3]))]
    if name == 'values':
        out = []
        for _ in range(g.pick([0, 1, 2, 3, 4])):
            x = g.n(0, 5)
            if x <= 2 or not val:
                # numbers (possibly negative, consecutive) and amounts exercise the disambiguation
                if g.p(0.5):
                    d = D.decimal_value(g)
                    out.append({'vt': 'dec', 'v': str(d)} if val else {'vt': 'donor', 'v': {'k': 'number_expr', 't': _dec_text(d)}})
                else:
                    d = D.decimal_value(g)
                    out.append({'vt': 'donor', 'v': {'k': 'amount', 't': _dec_text(d) + ' ' + g.currency_text()}})
            elif x == 3:
                out.append(S_() if val else tok('ESCAPED_STRING'))
            elif x == 4:
                out.append({'vt': 'date', 'v': D.date_value(g).isoformat()} if val else tok('DATE'))
            else:
                out.append({'vt': 'bool', 'v': g.p(0.5)} if val else tok('BOOL'))
        return out
    if name == 'merge':
        return {'vt': 'bool', 'v': g.p(0.5)}
    if name == 'components':
        comps = []
        for _ in range(g.pick([0, 1, 2, 3])):
            comps.append(tok(g.pick(['DATE', 'ASTERISK', 'ESCAPED_STRING', 'CURRENCY', 'number_expr', 'amount', 'compound_amount'])))
        return comps
    if name == 'cost' or name == 'cost_spec':
        return plan(g, 'CostSpec', 'from_value', depth + 1)
    if cname == 'CostSpec' and name == 'cost':
        return plan(g, g.pick(['UnitCost', 'TotalCost']), 'from_children', depth + 1)
    if name == 'number_add_expr':
        return plan_expr(g, 'NumberAddExpr', depth + 1) if g.p(0.5) else tok('add_expr')
    if name == 'ignored':
        return tok('IGNORED')
    if name == 'directives':
        items = []
        for _ in range(g.pick([0, 1, 2, 3])):
            if not val and g.p(0.2):
                items.append(tok('BLOCK_COMMENT'))
            else:
                dn = g.pick(DIRECTIVES)
                hows = [h for h in ('from_value', 'from_children') if hasattr(getattr(models, dn), h)]
                items.append(plan(g, dn, g.pick(hows), depth + 1))
        return items
    raise HarnessError(f'no role for parameter {cname}.{how}({name})')


def _dec_text(d: decimal.Decimal) -> str:
    s = format(d.copy_abs(), "f")
    return ('-' + s) if d < 0 else s


def realise(spec: Any) -> Any:
    if isinstance(spec, list):
        return [realise(x) for x in spec]
    if isinstance(spec, dict) and 'cls' in spec:
        cls = getattr(models, spec['cls'])
        kwargs = {k: realise(v) for k, v in spec['args'].items()}
        if spec['cls'] == 'CostSpec' and spec['how'] == 'from_children' and 'cost' in kwargs and isinstance(kwargs['cost'], models.CostSpec):
            kwargs['cost'] = kwargs['cost'].raw_cost
            return cls.from_children(cost=_fresh_cost(kwargs['cost']))
        return getattr(cls, spec['how'])(**kwargs)
    if isinstance(spec, dict) and spec.get('vt') == 'dict':
        return {k: D.decode(v) for k, v in spec['v']}
    if isinstance(spec, dict) and spec.get('vt') == 'tuple':
        return tuple(realise(x) for x in spec['v'])
    return D.decode(spec)


def _fresh_cost(cost: Any) -> Any:
    import copy
    return copy.deepcopy(cost)


def count_features(spec: Any) -> tuple:
    """(optional args present, max list length, needs escape, negative number)"""
    opt = 0
    mlist = 0
    esc = neg = False
    if isinstance(spec, list):
        mlist = len(spec)
        for x in spec:
            o, m, e, n = count_features(x)
            mlist, esc, neg = max(mlist, m), esc or e, neg or n
        return 0, mlist, esc, neg
    if isinstance(spec, dict) and 'cls' in spec:
        cls = getattr(models, spec['cls'])
        sig = inspect.signature(getattr(cls, spec['how']))
        for k, v in spec['args'].items():
            if sig.parameters[k].default is not inspect.Parameter.empty:
                opt += 1
            o, m, e, n = count_features(v)
            mlist, esc, neg = max(mlist, m), esc or e, neg or n
        return opt, mlist, esc, neg
    if isinstance(spec, dict) and spec.get('vt') == 'tuple':
        return count_features(spec['v'])
    if isinstance(spec, dict):
        v = spec.get('v')
        if spec.get('vt') == 'str' and isinstance(v, str):
            esc = '"' in v or '\\' in v
        if spec.get('vt') == 'dec' and str(v).startswith('-'):
            neg = True
        if spec.get('vt') == 'dict':
            mlist = len(v)
        if spec.get('vt') == 'donor' and str(v.get('t', '')).startswith('-'):
            neg = True
    return opt, mlist, esc, neg


def expected_getters(spec: dict) -> dict:
    """name -> expected python value for the from_value arguments that are readable value properties."""
    out = {}
    for k, v in spec['args'].items():
        if isinstance(v, dict) and 'vt' in v and v['vt'] in ('str', 'date', 'dec', 'bool', 'none'):
            out[k] = D.decode(v)
        elif isinstance(v, list) and all(isinstance(x, dict) and x.get('vt') == 'str' for x in v):
            out[k] = [x['v'] for x in v]
    return out


def _nested_classes(spec: Any) -> set:
    out: set = set()
    if isinstance(spec, list):
        for x in spec:
            out |= _nested_classes(x)
    elif isinstance(spec, dict) and 'cls' in spec:
        out.add(spec['cls'])
        for v in spec['args'].values():
            out |= _nested_classes(v)
    elif isinstance(spec, dict) and spec.get('vt') == 'tuple':
        out |= _nested_classes(spec['v'])
    return out


def run_case(case: dict) -> Result:
    res = Result()
    spec = case['spec']
    cname, how = spec['cls'], spec['how']
    classes = {'how:' + how, 'cls:' + cname} | {'uses:' + c for c in _nested_classes(spec) if c in EXPR_CLASSES}
    try:
        m = realise(spec)
    except ValueError as e:
        if cname == 'CostSpec' or 'CostSpec' in repr(spec):
            return Result(discard=True, classes=['documented-rejection'])
        return res.bad(f'construct-raised:{cname}.{how}:ValueError', f'{cname}.{how}(...) raised {e!r} for in-domain arguments {spec}')
    except HarnessError:
        raise
    except lark.exceptions.LarkError:
        return Result(discard=True)
    except Exception as e:  # noqa: BLE001
        return res.bad(f'construct-raised:{cname}.{how}:{type(e).__name__}', f'{cname}.{how}(...) raised {e!r} for in-domain arguments {spec}')
    key = f'{cname}.{how}'
    bad = O.invariants(m, whole_store=True)
    if bad:
        res.bad(f'invariant:{bad[0][0]}:{key}', f'{key} built a tree that is not well-formed: {bad[:3]}; printed {O.print_text(m)!r}')
        res.classes = sorted(classes)
        return res
    text = O.print_text(m)
    try:
        again = common.parser().parse(text, type(m))
    except lark.exceptions.LarkError as e:
        res.bad(f'reparse-rejected:{key}', f'{key} prints {text!r}, which parse(..., {cname}) rejects: {str(e)[:200]} ; spec {spec}')
        res.classes = sorted(classes)
        return res
    except Exception as e:  # noqa: BLE001
        res.bad(f'reparse-raised:{key}:{type(e).__name__}', f'{key} prints {text!r}; parse raised {e!r}')
        res.classes = sorted(classes)
        return res
    d1, d2 = O.digest(m), O.digest(again)
    if d1 != d2:
        res.bad(f'digest:{key}', f'{key}: constructed and re-parsed content differ at {O.digest_diff(d1, d2)}; printed {text!r}')
    elif O.comment_lines(m) != O.comment_lines(again):
        res.bad(f'comments:{key}', f'{key}: comment lines {O.comment_lines(m)!r} re-parse as {O.comment_lines(again)!r}; printed {text!r}')
    if not res.violations:
        # who owns which comment ("the same fields and values"): compared unless two comment blocks touch in the printed text - adjacent
        # comment lines parse as one block, and which owner gets it is then a question of attribution rules (C14), not of construction
        from vf.props import c14
        blocks = [t for t in O.store_tokens(again.token_store) if isinstance(t, BlockComment)]
        n_built = sum(1 for t in O.store_tokens(m.token_store) if isinstance(t, BlockComment))
        if blocks and n_built == len(blocks):
            classes.add('comment-owners-compared')
            try:
                o1, o2 = c14.omap(m), c14.omap(again)
            except Exception:  # noqa: BLE001
                o1 = o2 = None
            if o1 is not None:
                # a standalone comment placed next to a model is that model's comment by the documented rules once parsed: only comments given
                # to a model as its leading / trailing comment are compared
                # ... and only where no other model line follows (trailing) / precedes (leading) the comment: a trailing comment directly above
                # a sibling is that sibling's leading comment by the documented order
                n_lines = text.rstrip('\r\n \t').count('\n')
                last_block_start = n_lines - blocks[-1].raw_text.count('\n')
                keep = [i for i, x in enumerate(o1) if any("'item'" not in h for h in x[2]) and
                        ((i == len(o1) - 1 and x[0] == last_block_start and any("'trailing'" in h for h in x[2])) or
                         (i == 0 and x[0] == 0 and any("'leading'" in h for h in x[2])))]
                o1, o2 = [o1[i] for i in keep], [o2[i] for i in keep]
            if o1 != o2:
                import ast
                bucket = f'comment-owner:{key}'
                try:
                    x, y = next((a, b) for a, b in zip(o1, o2) if a != b)
                    h1, h2 = ast.literal_eval(x[2][0]), ast.literal_eval(y[2][0])
                    if h1[0] == h2[0] == 'trailing' and h2[1][1] < h1[1][1]:
                        # open finding: the last line of a nested body given to the inner item comes back as the enclosing model's
                        bucket = 'comment-owner:inner-trailing-comment-goes-to-enclosing-model'
                    elif h2[0] == 'item' and h2[1][0] == 'Transaction' and h2[1][2] == '_postings':
                        bucket = None   # the layout of C14's open finding (a transaction with meta and no postings)
                        res.excluded_known += 1
                except Exception:  # noqa: BLE001
                    pass
                if bucket:
                    res.bad(bucket, f'{key}: a comment given to one part of the constructed model belongs to another part after print and parse: '
                            f'{c14._mdiff(o1, o2)}; printed {text!r}')
    if how == 'from_value' and not res.violations:
        exp = expected_getters(spec)
        if cname == 'Transaction' and exp.get('payee') is not None and exp.get('narration') is None and 'narration' in exp:
            exp['narration'] = ''
        for name, want in exp.items():
            if name in ('indent_by',) or not hasattr(type(m), name):
                continue
            if cname == 'Tolerance' or (cname == 'CostSpec' and name == 'merge'):
                pass
            try:
                got = getattr(m, name)
            except Exception as e:  # noqa: BLE001
                res.bad(f'getter-raised:{cname}.{name}', f'{key}: reading {name} raised {e!r}')
                break
            if isinstance(want, list):
                got = list(got)
            if got != want and not (isinstance(want, decimal.Decimal) and isinstance(got, decimal.Decimal) and got == want):
                res.bad(f'getter:{cname}.{name}', f'{key}({name}={want!r}): {name} reads {got!r}; printed {text!r}')
                break
    o, ml, esc, neg = count_features(spec)
    res.nontrivial = o >= 2 or ml >= 2 or esc or neg
    res.classes = sorted(classes)
    return res


def _build(tier: str):
    cfg = L.Cfg(hazard_text=0.25, exotic=0.1)

    def build(rnd: Any) -> dict:
        g = L.G(rnd, cfg)
        cname = g.pick(CLASSES + ['Transaction', 'Posting', 'File', 'Custom', 'CostSpec', 'MetaItem', 'MetaItem', 'Custom', 'NumberExpr'])
        hows = [h for h in ('from_value', 'from_children') if hasattr(getattr(models, cname), h)]
        return {'spec': plan(g, cname, g.pick(hows), indent=g.pick(['  ', '    ', '\t']) if cname in INDENTED else None)}
    return build


def _sweep():
    import itertools
    import random
    rnd = random.Random(15)
    g = L.G(rnd, L.Cfg(hazard_text=0.2, exotic=0.05))
    for cname in CLASSES:
        cls = getattr(models, cname)
        for how in ('from_value', 'from_children'):
            if not hasattr(cls, how):
                continue
            sig = inspect.signature(getattr(cls, how))
            optional = [n for n, p in sig.parameters.items() if p.default is not inspect.Parameter.empty and n != 'indent_by']
            nullable = [n for n, p in sig.parameters.items() if p.default is inspect.Parameter.empty and ('Optional' in str(p.annotation) or 'NoneType' in str(p.annotation))]
            names = (optional + nullable)[:7]
            for r in range(len(names) + 1):
                for subset in itertools.combinations(names, r):
                    yield {'spec': plan(g, cname, how, present=set(subset), indent='  ' if cname in INDENTED else None)}


def flat_expr_spec(nums: list, ops: list) -> dict:
    """The from_children recipe of the flat expression nums[0] ops[0] nums[1] ... (multiplicative runs grouped, as the grammar would)."""
    num = lambda t: {'vt': 'donor', 'v': {'k': 'NUMBER', 't': t}}  # noqa: E731
    groups, gops = [[num(nums[0])]], [[]]
    add_ops = []
    for op, n in zip(ops, nums[1:]):
        if op in '*/':
            groups[-1].append(num(n))
            gops[-1].append({'vt': 'donor', 'v': {'k': 'MUL_OP', 't': op}})
        else:
            add_ops.append({'vt': 'donor', 'v': {'k': 'ADD_OP', 't': op}})
            groups.append([num(n)])
            gops.append([])
    muls = [{'cls': 'NumberMulExpr', 'how': 'from_children', 'args': {'operands': {'vt': 'tuple', 'v': g_}, 'ops': {'vt': 'tuple', 'v': o_}}} for g_, o_ in zip(groups, gops)]
    add = {'cls': 'NumberAddExpr', 'how': 'from_children', 'args': {'operands': {'vt': 'tuple', 'v': muls}, 'ops': {'vt': 'tuple', 'v': add_ops}}}
    return {'cls': 'NumberExpr', 'how': 'from_children', 'args': {'number_add_expr': add}}


def _sweep_expr():
    """Every flat expression of 2-3 operands from {2000, 1, 12, 0.5} x every operator sequence, assembled with from_children, alone and as the value
    of a meta item, a custom directive, an amount and a cost: the places where the grammar also accepts a date or another token kind."""
    import itertools
    pool = ['2000', '1', '12', '0.5']
    key = {'vt': 'donor', 'v': {'k': 'META_KEY', 't': 'kk:'}}
    for n in (2, 3):
        for nums in itertools.product(pool, repeat=n):
            for ops in itertools.product('+-*/', repeat=n - 1):
                e = lambda: flat_expr_spec(list(nums), list(ops))  # noqa: E731
                yield {'spec': e()}
                yield {'spec': {'cls': 'MetaItem', 'how': 'from_children', 'args': {'indent': {'vt': 'donor', 'v': {'k': 'INDENT', 't': '  '}}, 'key': key, 'value': e()}}}
                yield {'spec': {'cls': 'Custom', 'how': 'from_children', 'args': {'date': {'vt': 'donor', 'v': {'k': 'DATE', 't': '2000-01-01'}},
                                                                                'type': {'vt': 'donor', 'v': {'k': 'ESCAPED_STRING', 't': '"t"'}},
                                                                                'values': [e()]}}}
                yield {'spec': {'cls': 'Amount', 'how': 'from_children', 'args': {'number': e(), 'currency': {'vt': 'donor', 'v': {'k': 'CURRENCY', 't': 'USD'}}}}}
                yield {'spec': {'cls': 'UnitCost', 'how': 'from_children', 'args': {'components': [e(), {'vt': 'donor', 'v': {'k': 'DATE', 't': '2000-01-01'}}]}}}


def jobs(tier: str) -> list[Job]:
    if tier == 'quick':
        return [Job('random', 'hyp', lambda: _build(tier), 8000), Job('optional-subsets', 'enum', _sweep, exhaustive=True),
                Job('expression-sweep', 'enum', _sweep_expr, exhaustive=True)]
    return [Job('random', 'hyp', lambda: _build(tier), 100000), Job('optional-subsets', 'enum', _sweep, exhaustive=True),
                Job('expression-sweep', 'enum', _sweep_expr, exhaustive=True)]
