"""C20 - equality means same type, same text and same structure."""
from __future__ import annotations

import copy
from typing import Any, Optional

from autobean_refactor import models
from autobean_refactor.models import base
from autobean_refactor.models.block_comment import BlockComment

from vf.gen import ledger as L, ops as OPS, sweeps
from vf.obs import core as O
from vf.props import common
from vf.run import Job, Result

ID = 'C20'
RULE = ('Generated ledgers (G1/G2). Pairs: (i) the same text parsed twice in each attribution mode; (ii) every model and its deep copy; (iii) a model '
        'and a copy perturbed by exactly one of - new text for any one token (trivia and zero-width tokens included), an optional child added or '
        'removed, a required child replaced, a list item added / removed / replaced (every field of every class via the schema-driven generator and '
        'the list sweep), a comment\'s ownership moved (leading -> previous sibling\'s trailing; claimed <-> standalone); (iv) same-text tokens of '
        'different classes; (v) cross-type pairs. Oracle: (i),(ii) equal in both directions, unaffected sub-models of a perturbed copy still equal '
        'their originals; (iii) whenever the printed text or the ownership differs the pair is unequal in both directions, at the root and at the '
        'model owning the change; (iv),(v) unequal; always (a == b) == (b == a); equal tokens have equal hashes. Non-trivial = a pair from (iii) whose '
        'perturbed field is not the first field of its class, or a pair from (iv).')
RULE = RULE + ' Round 8: the perturbation families include in-place arithmetic, mapping operations, copy-and-insert and pop-and-reinsert.'
ASSUMPTIONS = ['indent_by (a formatting preference that equality also compares) is never varied', 'a perturbation that leaves text and ownership the same (e.g. replacing a child by an equal node) asserts nothing']
SHRINK_LISTS = ('ops', 'dirs')
REQUIRED_CLASSES = ('pair:twice', 'pair:copy', 'pert:tok', 'pert:opt', 'pert:list', 'pert:ownership', 'pair:same-text-tokens', 'pair:cross-type', 'pair:same-span-different-type')


def sym(a: Any, b: Any) -> Optional[bool]:
    x, y = (a == b), (b == a)
    if bool(x) != bool(y):
        return None
    return bool(x)


def ownership_map(root: Any) -> list:
    """comment ordinal -> owner description (kind, owner class, owner first content token ordinal)"""
    order = O.Order(root.token_store)
    comments = [t for t in order.tokens if isinstance(t, BlockComment)]
    cid = {id(c): i for i, c in enumerate(comments)}
    out = {}
    for m, _ in O.walk(root, order):
        if isinstance(m, O.Repeated):
            for pos, it in enumerate(m.items):
                if isinstance(it, BlockComment):
                    out[cid.get(id(it))] = ('item', pos)
        elif isinstance(m, base.RawTreeModel):
            for attr in ('_leading_comment', '_trailing_comment'):
                c = vars(m).get(attr)
                if c is not None:
                    out[cid.get(id(c))] = (attr, type(m).__name__, O.print_text(m)[:30])
    return [out.get(i) for i in range(len(comments))] + [c.claimed for c in comments]


SAME_TEXT = [
    ('POSTING_FLAG', 'TRANSACTION_FLAG', '*'), ('POSTING_FLAG', 'ASTERISK', '*'), ('ASTERISK', 'MUL_OP', '*'), ('TRANSACTION_FLAG', 'MUL_OP', '*'),
    ('ADD_OP', 'UNARY_OP', '-'), ('ADD_OP', 'UNARY_OP', '+'), ('BOOL', 'CURRENCY', 'TRUE'), ('NULL', 'CURRENCY', 'NULL'), ('POSTING_FLAG', 'HASH', '#'),
    ('WHITESPACE', 'INDENT', '  '), ('EOL', 'DEDENT_MARK', ''), ('EOL', 'PLACEHOLDER', ''), ('TAG', 'IGNORED', '#abc'), ('INLINE_COMMENT', 'BLOCK_COMMENT', '; x'),
    ('AT', 'ATAT', '@'), ('ESCAPED_STRING', 'IGNORED', '"x"'), ('NUMBER', 'IGNORED', '1'), ('POSTING_FLAG', 'MUL_OP', '*'),
]


def _tok(rule: str, text: str) -> Any:
    if rule == 'PLACEHOLDER':
        return O.Placeholder.from_default()
    return models.TOKEN_MODELS[rule].from_raw_text(text)


def run_case(case: dict) -> Result:
    res = Result()
    classes = set()
    if case.get('kind') == 'tokens':
        for r1, r2, text in SAME_TEXT:
            try:
                a, b = _tok(r1, text), _tok(r2, text if not (r2 == 'ATAT') else '@@')
            except Exception:  # noqa: BLE001
                continue
            classes.add('pair:same-text-tokens')
            s = sym(a, b)
            if s is None:
                res.bad('asymmetric:tokens', f'{r1} {text!r} vs {r2}: == is not symmetric')
            elif s:
                res.bad(f'equal-different-class:{r1}:{r2}', f'{r1}({text!r}) == {r2}({b.raw_text!r}) although the token types differ')
            a2 = _tok(r1, text)
            if sym(a, a2) is not True:
                res.bad(f'unequal-same:{r1}', f'two {r1} tokens with text {text!r} are not equal')
            elif hash(a) != hash(a2):
                res.bad(f'hash:{r1}', f'equal {r1} tokens have different hashes')
        res.classes = sorted(classes)
        res.nontrivial = True
        return res
    claim = bool(case.get('claim', True))
    root = common.parse_case(case, claim=claim)
    if root is None:
        return Result(discard=True)
    twin = common.parse_case(case, claim=claim)
    classes.add('pair:twice')
    s = sym(root, twin)
    if s is not True:
        return res.bad('twice-unequal' if s is False else 'asymmetric:twice', f'parsing {L.text_of(case["dirs"])!r} twice (claim={claim}) gives models with == {s}')
    # token hashes
    for a, b in zip(O.store_tokens(root.token_store), O.store_tokens(twin.token_store)):
        if a == b and hash(a) != hash(b):
            return res.bad(f'hash:{type(a).RULE}', f'equal tokens {a!r} have different hashes')
        if not (a == b):
            return res.bad(f'token-unequal:{type(a).RULE}', f'the same token parsed twice is unequal: {a!r} {b!r}')
    # a token that was hashed, then edited, is equal to a freshly made token of its new text - and hashes like it
    scratch = common.parse_case(case, claim=claim)
    for t in O.store_tokens(scratch.token_store):
        if not hasattr(type(t), 'value') or type(t).__name__ in ('Indent',):
            continue
        hash(t)
        old_text = t.raw_text
        try:
            if isinstance(t.value, str):
                t.value = t.value + 'x'
            else:
                t.raw_text = t.raw_text   # the same text: still equal to what it was
        except Exception:  # noqa: BLE001
            continue
        try:
            fresh = type(t).from_raw_text(t.raw_text)
        except Exception:  # noqa: BLE001
            continue
        classes.add('hash-after-edit')
        if fresh == t and hash(fresh) != hash(t):
            return res.bad(f'hash-after-edit:{type(t).RULE}', f'a {type(t).__name__} hashed as {old_text!r}, then edited to {t.raw_text!r}, equals a fresh token of that text but hashes differently')
    cp = copy.deepcopy(root)
    classes.add('pair:copy')
    s = sym(root, cp)
    if s is not True:
        return res.bad('copy-unequal' if s is False else 'asymmetric:copy', f'deepcopy of the document compares == {s}')
    # cross-type pairs
    idx = OPS.index_models(root)
    names = sorted(idx)
    if len(names) >= 2:
        classes.add('pair:cross-type')
        for n1, n2 in zip(names, names[1:]):
            a, b = idx[n1][0], idx[n2][0]
            s = sym(a, b)
            if s is None:
                return res.bad('asymmetric:cross-type', f'{n1} vs {n2}: == is not symmetric')
            if s and O.print_text(a) != O.print_text(b):
                return res.bad(f'equal-cross-type:{n1}:{n2}', f'{n1} {O.print_text(a)!r} == {n2} {O.print_text(b)!r}')
    # a model and a descendant covering exactly the same tokens (NumberExpr / NumberAddExpr, CostSpec / UnitCost, ...) have different types
    order = O.Order(root.token_store)
    for m, _d in O.walk(root, order):
        if not isinstance(m, base.RawTreeModel):
            continue
        for c in O.raw_children(m):
            if isinstance(c, base.RawTreeModel) and not isinstance(c, O.Repeated) and type(c) is not type(m):
                try:
                    same_span = c.first_token is m.first_token and c.last_token is m.last_token
                except Exception:  # noqa: BLE001
                    same_span = False
                if same_span:
                    classes.add('pair:same-span-different-type')
                    s2 = sym(m, c)
                    if s2 is not False:
                        return res.bad(f'equal-different-type:{type(m).__name__}:{type(c).__name__}',
                                       f'{type(m).__name__} {O.print_text(m)!r} == its {type(c).__name__} child covering the same tokens (== gives {s2})')
    # perturb the copy
    pert = case.get('pert')
    if not pert:
        res.classes = sorted(classes)
        return res
    text0 = O.print_text(cp)
    own0 = ownership_map(cp)
    owner_cls = None
    owner_mi = None
    field_first = True
    try:
        if pert.get('p') == 'own':
            ok = _move_ownership(cp, pert)
            if not ok:
                res.classes = sorted(classes)
                return res
            kind = 'ownership'
        else:
            a = OPS.resolve(cp, pert['op'])
            if isinstance(a.P, base.RawTreeModel):
                owner_cls, owner_mi = type(a.P).__name__, next((i for i, m in enumerate(OPS.index_models(cp).get(type(a.P).__name__, [])) if m is a.P), None)
                props = [p.name for p in __import__('vf.gen.schema', fromlist=['x']).props_of(a.P)]
                field_first = bool(props) and a.prop in props[:2]
            a.run()
            kind = {'tok': 'tok', 'opt': 'opt', 'req': 'req', 'val': 'opt', 'list': 'list', 'view': 'list', 'map': 'list'}.get(a.family, a.family)
    except OPS.NotApplicable:
        res.classes = sorted(classes)
        return res
    except Exception:  # noqa: BLE001 - refused / crashed perturbations assert nothing here
        res.classes = sorted(classes)
        return res
    text1 = O.print_text(cp)
    own1 = ownership_map(cp)
    differs = text1 != text0 or own1 != own0
    # "a deep copy equals its original" holds for every model, edited ones included
    try:
        cp2 = copy.deepcopy(cp)
        s3 = sym(cp, cp2)
    except Exception:  # noqa: BLE001 - C11's subject
        s3 = True
    if s3 is not True:
        res.bad(f'edited-copy-unequal:{kind}:{owner_cls or "-"}.{pert.get("op", {}).get("prop", pert.get("how", ""))}',
                f'after {pert} the edited document (printing {text1!r}) does not compare equal to its own deep copy (== gives {s3})')
    classes.add('pert:' + kind)
    s = sym(root, cp)
    key = f'{kind}:{owner_cls or "-"}.{pert.get("op", {}).get("prop", pert.get("how", ""))}'
    if s is None:
        res.bad(f'asymmetric:{key}', f'after {pert}: == between original and perturbed copy is not symmetric')
    elif differs and s:
        res.bad(f'equal-after-change:{key}', f'after {pert} the copy prints {text1!r} (original {text0!r}), ownership changed={own1 != own0}, yet original == copy')
    elif not differs and not s and pert.get('p') != 'own':
        # same text, same ownership: the perturbation replaced something by an equivalent; inequality would contradict "exactly when"
        if O.Snapshot(root).structure.keys() and O.digest(root) == O.digest(cp) and _shape(root) == _shape(cp):
            res.bad(f'unequal-without-change:{key}', f'after {pert} text, ownership and tree shape are the same, yet original != copy')
    if differs and not res.violations and owner_cls and owner_mi is not None and text1 != text0:
        orig = OPS.index_models(root).get(owner_cls, [])
        now = OPS.index_models(cp).get(owner_cls, [])
        if owner_mi < len(orig) and owner_mi < len(now) and len(orig) == len(now):
            if O.print_text(orig[owner_mi]) != O.print_text(now[owner_mi]) and sym(orig[owner_mi], now[owner_mi]) is not False:
                res.bad(f'owner-equal-after-change:{key}', f'after {pert} the owning {owner_cls} prints differently yet compares equal')
    # unaffected top-level directives remain equal
    if not res.violations:
        d0, d1 = list(root.raw_directives_with_comments), list(cp.raw_directives_with_comments)
        if len(d0) == len(d1):
            for x, y in zip(d0, d1):
                if O.print_text(x) == O.print_text(y) and own1 == own0 and sym(x, y) is False and O.digest(x) == O.digest(y) and _shape(x) == _shape(y):
                    res.bad(f'unaffected-unequal:{type(x).__name__}', f'after {pert} an untouched {type(x).__name__} {O.print_text(x)!r} no longer equals its original')
                    break
    res.nontrivial = differs and (not field_first or kind == 'ownership')
    res.classes = sorted(classes)
    return res


def _shape(m: Any) -> Any:
    if isinstance(m, base.RawTokenModel):
        return (type(m).__name__, m.raw_text)
    return (type(m).__name__, [(_k, _shape(c)) for _k, c in _named_children(m)])


def _named_children(m: Any) -> list:
    out = []
    for k, v in sorted(vars(m).items()):
        if k == '_token_store':
            continue
        if isinstance(v, base.RawModel):
            out.append((k, v))
        elif isinstance(v, (tuple, list)):
            out.extend((k, x) for x in v if isinstance(x, base.RawModel))
    return out


def _move_ownership(cp: Any, pert: dict) -> bool:
    if pert.get('how') == 'unclaim-item':
        from vf.gen import schema as S2
        found = []
        for ms in OPS.index_models(cp).values():
            for m in ms:
                for p in S2.props_of(m):
                    if p.kind == 'clist':
                        wl = getattr(m, p.name)
                        found += [(wl, c) for c in wl if isinstance(c, BlockComment)]
        if not found:
            return False
        wl, c = found[pert.get('mi', 0) % len(found)]
        wl.unclaim_interleaving_comments([c])
        return True
    w = cp.raw_directives_with_comments
    items = list(w)
    cands = [i for i, d in enumerate(items) if getattr(d, 'raw_leading_comment', None) is not None]
    if not cands:
        return False
    i = cands[pert.get('mi', 0) % len(cands)]
    d = items[i]
    c = d.unclaim_leading_comment()
    how = pert.get('how')
    if how == 'prev-trailing' and i > 0 and hasattr(items[i - 1], 'claim_trailing_comment'):
        got = items[i - 1].claim_trailing_comment(ignore_if_already_claimed=True)
        if got is not c:
            if got is not None:
                return True
            w.claim_interleaving_comments([c])
        return True
    if how == 'unowned':
        return True
    w.claim_interleaving_comments([c])
    return True


def _build(tier: str):
    cfg = L.Cfg(max_dirs=4 if tier == 'quick' else 8, comments=0.45, blank=0.3, dup_comments=0.5)
    fams = ['tokraw', 'tokraw', 'opt', 'opt', 'req', 'val', 'list', 'list', 'view', 'arith', 'arith', 'map', 'copyins', 'popins']   # round 8: every family that changes text

    def build(rnd: Any) -> dict:
        g = L.G(rnd, cfg)
        claim = g.p(0.7)
        chunks = g.document()
        case: dict = {'dirs': chunks, 'claim': claim}
        try:
            root = common.parse_file(L.text_of(chunks), claim)
        except Exception:  # noqa: BLE001
            return case
        if g.p(0.3):
            case['pert'] = {'p': 'own', 'mi': g.n(0, 9), 'how': g.pick(['prev-trailing', 'standalone', 'unowned', 'unclaim-item', 'unclaim-item'])}
        else:
            op = None
            for _ in range(5):
                op = OPS.propose(g, root, fams)
                if op is not None:
                    break
            if op is not None:
                case['pert'] = {'p': 'op', 'op': op}
        return case
    return build


def _sweep():
    for c in sweeps.list_sweep(include_views=False):
        yield {'dirs': c['dirs'], 'claim': True, 'pert': {'p': 'op', 'op': c['ops'][0]}}


IDENTICAL_COMMENT_DOCS = [
    '; ----\n\n; ----\n', '; ----\n\n; ----\n\n; ----', '2000-01-01 open Assets:A\n\n; ----\n\n; ----\n',
    '; ----\n\n; ----\n\n2000-01-01 open Assets:A\n', '; h\n\n2000-01-01 open Assets:A\n\n; ----\n\n2000-01-02 close Assets:A\n\n; ----\n\n; ----\n',
    '2000-01-01 *\n  ; x\n\n2000-01-02 *\n  ; x\n', '2000-01-01 open Assets:A\n  ; x\n2000-01-02 open Assets:B\n  ; x\n',
    '  ; x\n\n  ; x\n\n  ; x\n', '; a\n\n; b\n\n; a\n\n; a\n',
]


def _enum_identical_comments():
    """Runs of standalone comments with identical text: releasing any single one changes the structure but not a single character."""
    for text in IDENTICAL_COMMENT_DOCS:
        for i in range(6):
            for claim in (True,):
                yield {'dirs': [[['X', text]]], 'claim': claim, 'pert': {'p': 'own', 'how': 'unclaim-item', 'mi': i}}


def jobs(tier: str) -> list[Job]:
    js = [Job('identical-comments', 'enum', _enum_identical_comments, exhaustive=True), Job('same-text-tokens', 'enum', lambda: iter([{'kind': 'tokens'}]), exhaustive=True),
          Job('pairs', 'hyp', lambda: _build(tier), 3000 if tier == 'quick' else 80000)]
    js.append(Job('slot-sweep', 'enum', _slot_sweep, exhaustive=True))
    if tier != 'quick':
        js.append(Job('list-sweep', 'enum', _sweep, exhaustive=True))
    return js


def _slot_sweep():
    for c in sweeps.slot_sweep(per_key=2):
        yield {'dirs': c['dirs'], 'claim': True, 'pert': {'p': 'op', 'op': c['ops'][0]}}
