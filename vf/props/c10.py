"""C10 - all views of a repeated field stay consistent with each other."""
from __future__ import annotations

import itertools
from typing import Any, Optional

from autobean_refactor import models
from autobean_refactor.models import base
from autobean_refactor.models.block_comment import BlockComment

from vf.gen import ledger as L, ops as OPS, sweeps, schema as S
from vf.obs import core as O
from vf.props import common
from vf.run import Job, Result

ID = 'C10'
RULE = ('Generated ledgers (documents biased to directives with lists: transactions, notes, documents, opens, customs, entries with '
        'meta and interleaved standalone comments) followed by 1-12 (quick) / 1-30 (thorough) mutations through any of the aliasing '
        'views of one underlying list - raw list, filtered node views, string views, meta mapping views - with every index / slice / '
        'step / key class including negative and out-of-range; in half of the cases every view is read before the first mutation. '
        'Plus bounded-exhaustive enumeration of every (start, stop, step) in ([-4..4] u None)^3 (thorough [-6..6]) for slice deletion '
        'and assignment on lists of size 0..3 (thorough 0..4) through the raw list and the tag/link views. Oracle: a Python list of '
        'identities for the raw list, each view == the raw list filtered/converted now, a view mutation == the same list operation on '
        'the view\'s previous content with invisible elements left in place, first-match ordered-dict semantics for meta (the first item '
        'with the key takes an assigned value, every other item prints unchanged), plus every keyed operation x key in {aa,bb,cc} over '
        'every layout of <= 3 (thorough 5) meta items keyed from {aa,bb} on a transaction, a posting and a one-line directive. '
        'Non-trivial = a mutation through one view followed by a read through a different view of the same list with >= 1 element '
        'not visible in one of them.')
RULE = RULE + ' Round 8: claim / unclaim / auto-claim calls are operations of the histories; after every operation the views of every model of the document are compared with their raw lists; enum-assign job (whole-field assignment from another model followed by every pair of eight small edits on either list).'
ASSUMPTIONS = [
    'popitem() of the meta mappings (inherited mixin that relies on key iteration) and reverse() on node lists are outside the contract',
    'a size-changing slice assignment through a filtered/string view may be refused with ValueError (documented) or behave like a list',
    'where in the raw list an insertion through a filtered view lands is not prescribed',
]
SHRINK_LISTS = ('ops', 'dirs')
REQUIRED_CLASSES = ('map:duplicate-keys', 'via:list', 'via:view', 'via:map', 'primed', 'lazy', 'mixed-visibility')

VIEW_SPECS = {
    # view prop -> (raw prop, visible predicate name, converts to values)
    'raw_postings': ('raw_postings_with_comments', 'Posting', False),
    'raw_directives': ('raw_directives_with_comments', 'notcomment', False),
    'raw_meta': ('raw_meta_with_comments', 'MetaItem', False),
    'meta': ('raw_meta_with_comments', 'MetaItem', False),
    'tags': ('raw_tags_links', 'Tag', True),
    'links': ('raw_tags_links', 'Link', True),
    'currencies': ('raw_currencies', 'Currency', True),
    'values': ('raw_values', 'all', True),
}


def visible(kind: str, x: Any) -> bool:
    if kind == 'all':
        return True
    if kind == 'notcomment':
        return not isinstance(x, BlockComment)
    return type(x).__name__ == kind


def convert(view: str, x: Any) -> Any:
    if view in ('tags', 'links', 'currencies'):
        return x.value
    if view == 'values':
        if type(x).__name__ in ('EscapedString', 'Date', 'Bool', 'NumberExpr'):
            return x.value
        return x
    return x


def same(a: Any, b: Any) -> bool:
    if isinstance(a, base.RawModel) or isinstance(b, base.RawModel):
        return a is b
    return type(a) == type(b) and a == b


def same_list(a: list, b: list) -> bool:
    return len(a) == len(b) and all(same(x, y) for x, y in zip(a, b))


def views_of(P: Any) -> list[tuple[str, str, str, bool]]:
    out = []
    for p in S.props_of(P):
        if p.name in VIEW_SPECS:
            raw, vis, conv = VIEW_SPECS[p.name]
            out.append((p.name, raw, vis, conv))
    return out


def check_views(P: Any, what: str) -> Optional[tuple[str, str]]:
    for name, raw, vis, conv in views_of(P):
        try:
            rawnow = list(getattr(P, raw))
            got = list(getattr(P, name))
            ln = len(getattr(P, name))
        except ArithmeticError:
            continue  # a value view over an expression that divides by zero: evaluating it legitimately raises
        except Exception as e:  # noqa: BLE001
            return (f'view-read-raised:{type(P).__name__}.{name}:{type(e).__name__}', f'reading {name} after {what} raised {e!r}')
        exp = [convert(name, x) for x in rawnow if visible(vis, x)]
        if not same_list(got, exp) or ln != len(exp):
            return (f'view!=filter(raw):{type(P).__name__}.{name}',
                    f'after {what}: {name} = {_show(got)} but the raw list {raw} filtered is {_show(exp)} (len()={ln})')
        # index access agrees with iteration
        try:
            w = getattr(P, name)
            for i in range(-len(exp), len(exp)):
                if not same(w[i], exp[i]):
                    return (f'view-index:{type(P).__name__}.{name}', f'after {what}: {name}[{i}] disagrees with iteration')
        except Exception as e:  # noqa: BLE001
            return (f'view-read-raised:{type(P).__name__}.{name}:{type(e).__name__}', f'indexing {name} after {what} raised {e!r}')
        if name in ('meta', 'raw_meta'):
            w = getattr(P, name)
            items = [x for x in rawnow if type(x).__name__ == 'MetaItem']
            try:
                keys = list(w.keys())
                if keys != [x.key for x in items]:
                    return (f'map-keys:{type(P).__name__}.{name}', f'after {what}: keys() = {keys} but items have {[x.key for x in items]}')
                if list(reversed(w.keys())) != keys[::-1] or len(w.keys()) != len(keys):
                    return (f'map-keys-reversed:{type(P).__name__}.{name}', f'after {what}: reversed(keys()) / len(keys()) disagree with keys() = {keys}')
                expv = items if name == 'raw_meta' else [x.value for x in items]
                vals, its = list(w.values()), list(w.items())
                if not same_list(vals, expv) or not same_list(list(reversed(w.values())), expv[::-1]):
                    return (f'map-values:{type(P).__name__}.{name}', f'after {what}: values() = {_show(vals)} but the items give {_show(expv)}')
                if [k for k, _ in its] != keys or not same_list([v for _, v in its], expv) or [k for k, _ in reversed(w.items())] != keys[::-1]:
                    return (f'map-items:{type(P).__name__}.{name}', f'after {what}: items() = {its!r} disagrees with keys() / values()')
                # the dict views answer membership, set operations and repr like a dict's views
                for k_, v_ in zip(keys, expv):
                    if k_ not in w.keys() or (k_ + '~') in w.keys():
                        return (f'map-keys-contains:{type(P).__name__}.{name}', f'after {what}: {k_!r} in keys() is wrong')
                    first_v = expv[keys.index(k_)]
                    if (k_, first_v) not in w.items() or (k_ + '~', first_v) in w.items():
                        return (f'map-items-contains:{type(P).__name__}.{name}', f'after {what}: ({k_!r}, first value) in items() is wrong')
                    if v_ not in w.values():
                        return (f'map-values-contains:{type(P).__name__}.{name}', f'after {what}: a value is not in values()')
                if (w.keys() & set(keys[:1])) != set(keys[:1]) or not isinstance(repr(w.keys()) + repr(w.values()) + repr(w.items()), str):
                    return (f'map-keys-setop:{type(P).__name__}.{name}', f'after {what}: keys() & {{first key}} is wrong')
                for x in items:
                    first = next(y for y in items if y.key == x.key)
                    got1 = w[x.key]
                    exp1 = first if name == 'raw_meta' else first.value
                    if not (got1 is exp1 or (not isinstance(exp1, base.RawModel) and got1 == exp1)):
                        return (f'map-get:{type(P).__name__}.{name}', f'after {what}: [{x.key!r}] is not the first match')
                    if x.key not in w:
                        return (f'map-in:{type(P).__name__}.{name}', f'after {what}: {x.key!r} in mapping is False')
            except (ArithmeticError,):
                pass  # a meta value that is an expression dividing by zero: evaluating it legitimately raises
            except Exception as e:  # noqa: BLE001
                return (f'view-read-raised:{type(P).__name__}.{name}:{type(e).__name__}', f'mapping read of {name} after {what} raised {e!r}')
    return None


def _in(x: Any, xs: list) -> bool:
    return any(x is y for y in xs)


def _show(xs: list) -> str:
    return '[' + ', '.join((type(x).__name__ + ':' + repr(O.print_text(x))) if isinstance(x, base.RawModel) else repr(x) for x in xs) + ']'


def prime(root: Any) -> None:
    for ms in OPS.index_models(root).values():
        for m in ms:
            for name, raw, _, _ in views_of(m):
                len(getattr(m, name))
                len(getattr(m, raw))


def run_case(case: dict) -> Result:
    res = Result()
    root = common.parse_case(case)
    if root is None:
        return Result(discard=True)
    classes = set()
    if case.get('prime'):
        prime(root)
        classes.add('primed')
    else:
        classes.add('lazy')
    nontrivial = False
    last_via: dict[int, str] = {}
    for op in case['ops']:
        if op.get('f') == 'claim':
            # a comment released or claimed moves in or out of a raw list: every view of every model must follow
            try:
                OPS.resolve(root, op).run()
            except OPS.NotApplicable:
                continue
            except Exception:  # noqa: BLE001
                continue  # nothing to claim / release there: a refusal, C19's
            classes.add('claim:' + op['op'])
            hit = None
            for ms in OPS.index_models(root).values():
                for m_ in ms:
                    hit = hit or check_views(m_, f'{op}')
            if hit:
                res.bad(hit[0] + ':claim:' + op['op'], hit[1])
                break
            continue
        if op.get('f') not in ('list', 'view', 'map'):
            continue
        try:
            a = OPS.resolve(root, op)
        except OPS.NotApplicable:
            continue
        P = a.P
        spec = VIEW_SPECS.get(a.prop)
        rawname = spec[0] if spec else a.prop
        try:
            raw_before = list(getattr(P, rawname))
        except Exception:  # noqa: BLE001
            continue
        if op['f'] == 'list' and op.get('op') == 'reverse':
            continue
        via = op['f'] + ':' + a.prop
        classes.add('via:' + op['f'])
        vspecs = views_of(P)
        mixed = any(any(not visible(v[2], x) for x in raw_before) for v in vspecs if v[1] == rawname)
        if mixed:
            classes.add('mixed-visibility')
        if id(P) in last_via and last_via[id(P)] != via and mixed:
            nontrivial = True
        if op['f'] == 'map':
            ks = [x.key for x in a.ref.get('items', [])]
            if len(set(ks)) < len(ks):
                classes.add('map:duplicate-keys')
                nontrivial = True
        last_via[id(P)] = via
        if op.get('op') == 'assign' and op.get('src', {}).get('mi') != op.get('mi'):
            classes.add('assign-from-another-model')
            nontrivial = True
        what = f'{op}'
        raised: Optional[BaseException] = None
        try:
            a.run()
        except Exception as e:  # noqa: BLE001
            raised = e
        if raised is not None:
            if a.expect_exc is not None and isinstance(raised, a.expect_exc):
                classes.add('expected-error')
                bad = check_views(P, what + ' (refused)')
                if bad:
                    res.bad(bad[0] + ':after-refusal:' + a.shape, bad[1])
                break
            if a.refusal_documented and isinstance(raised, ValueError):
                classes.add('documented-refusal')
                break
            if isinstance(raised, ArithmeticError):
                # a keyed read-and-remove of a value that cannot be evaluated (1 / 0): raising is legitimate, removing the item on the way is not
                try:
                    raw_now2 = list(getattr(P, rawname))
                except Exception:  # noqa: BLE001
                    raw_now2 = None
                if raw_now2 is None or not same_list(raw_now2, raw_before):
                    res.bad(f'changed-although-raised:{a.family}:{a.shape}:{type(raised).__name__}',
                            f'{what} on {type(P).__name__}.{a.prop} raised {raised!r} (the value does not evaluate) but the list changed: {_show(raw_before)} -> {_show(raw_now2 or [])}')
                break
            res.bad(f'unexpected-error:{a.family}:{a.shape}:{type(raised).__name__}',
                    f'{what} on {type(P).__name__}.{a.prop} (content {_show(a.ref.get("cur", []))}) raised {raised!r}; a list accepts it')
            break
        if a.expect_exc is not None:
            res.bad(f'missing-error:{a.family}:{a.shape}', f'{what} on {type(P).__name__}.{a.prop} did not raise {a.expect_exc.__name__} as a list does')
            break
        # the view the op went through behaves like a list
        if 'expected' in a.ref and not a.refusal_documented:
            exp = a.ref['expected']
            try:
                got = list(getattr(P, a.prop))
            except ArithmeticError:
                break  # an expression dividing by zero among the values: evaluating the view legitimately raises
            except Exception as e:  # noqa: BLE001
                res.bad(f'view-read-raised:{type(P).__name__}.{a.prop}:{type(e).__name__}', f'after {what}: {e!r}')
                break
            if not same_list(got, exp):
                res.bad(f'list-semantics:{a.family}:{a.shape}',
                        f'{what} on {type(P).__name__}.{a.prop}: content {_show(a.ref.get("cur", []))} became {_show(got)}, a list gives {_show(exp)}')
                break
        # invisible elements stay in place
        if spec is not None:
            vis = spec[1]
            try:
                raw_now = list(getattr(P, rawname))
            except Exception as e:  # noqa: BLE001
                res.bad(f'view-read-raised:{type(P).__name__}.{rawname}:{type(e).__name__}', f'after {what}: {e!r}')
                break
            inv_b = [x for x in raw_before if not visible(vis, x)]
            inv_n = [x for x in raw_now if not visible(vis, x)]
            if not same_list(inv_b, inv_n):
                res.bad(f'invisible-moved:{a.family}:{a.shape}', f'{what} through {a.prop} changed the elements it does not show: {_show(inv_b)} -> {_show(inv_n)}')
                break
        if op['f'] == 'map':
            bad2 = _check_map(a, P, rawname, raw_before, op)
            if bad2:
                res.bad(*bad2)
                break
        bad = check_views(P, what)
        if bad:
            res.bad(bad[0] + ':' + a.family + ':' + a.shape, bad[1])
            break
        # the views of every OTHER model still show their own lists (a copied list that keeps notifying the views of the list it was copied
        # from - round 8, seed C03-h - shows up on the donor, not on the model operated on)
        other_bad = None
        for ms in OPS.index_models(root).values():
            for m_ in ms:
                if m_ is not P and other_bad is None:
                    other_bad = check_views(m_, what + ' (on another model)')
        if other_bad:
            res.bad('other-model:' + other_bad[0] + ':' + a.family + ':' + a.shape, other_bad[1])
            break
    res.classes = sorted(classes)
    res.nontrivial = nontrivial
    return res


def _check_map(a: Any, P: Any, rawname: str, raw_before: list, op: dict) -> Optional[tuple[str, str]]:
    raw_now = list(getattr(P, rawname))
    match = a.ref.get('match')
    name, key = op['op'], op['key']
    tag = f'map-semantics:{a.prop}:{a.shape}'
    if name == 'set':
        if a.prop == 'raw_meta':
            new = a.inserted[0]
            exp = [new if x is match else x for x in raw_before] if match is not None else raw_before + [new]
        elif match is not None:
            exp = raw_before
            # first-match semantics: the FIRST item with that key takes the value; every other item (duplicates of the key included) is untouched
            for x, t0 in zip(a.ref.get('items', []), a.ref.get('item_texts', [])):
                if x is not match and O.print_text(x) != t0:
                    return (tag + ':wrong-item', f'{op}: the assignment changed {t0!r} to {O.print_text(x)!r}; only the first item with key {key!r} ({O.print_text(match)!r}) may change')
            v = a.ref.get('value')
            try:
                got = match.value
                ok = (got is v) or (not isinstance(v, base.RawModel) and type(got) == type(v) and got == v) or (isinstance(v, base.RawModel) and isinstance(got, base.RawModel) and O.print_text(got) == O.print_text(v))
            except ArithmeticError:
                ok = True
            if not ok:
                return (tag + ':first-match-not-updated', f'{op}: the first item with key {key!r} now has value {match.value!r}, expected {v!r}')
        else:
            if len(raw_now) != len(raw_before) + 1 or not same_list(raw_now[:-1], raw_before) or getattr(raw_now[-1], 'key', None) != key:
                return (tag, f'{op}: expected one new item with key {key!r} appended, raw list is {_show(raw_now)}')
            return None
        if not same_list(raw_now, exp):
            return (tag, f'{op}: raw list is {_show(raw_now)}, expected {_show(exp)}')
    elif name in ('del', 'pop', 'pop_default'):
        exp = [x for x in raw_before if x is not match] if match is not None else raw_before
        if not same_list(raw_now, exp):
            return (tag, f'{op}: raw list is {_show(raw_now)}, expected the first match removed: {_show(exp)}')
    elif name == 'popitem':
        exp = [x for x in raw_before if x is not match]
        if not same_list(raw_now, exp):
            return (tag, f'{op}: raw list is {_show(raw_now)}, expected the last item removed: {_show(exp)}')
        ret = a.ref.get('returned')
        if not (isinstance(ret, tuple) and len(ret) == 2 and ret[0] == match.key):
            return (tag + ':returned', f'{op}: returned {ret!r}, expected (key, value) of the last item {match.key!r}')
    elif name == 'update':
        pairs = a.ref.get('update_pairs', [])
        first = {}
        for k_, v_ in pairs:
            first.setdefault(k_, v_)
        w_now = getattr(P, a.prop)
        for k_, v_ in first.items():
            try:
                got = w_now[k_]
            except KeyError:
                return (tag + ':missing', f'{op}: key {k_!r} of the other mapping is absent afterwards')
            if not same(got, v_):
                return (tag + ':value', f'{op}: [{k_!r}] is {got!r} afterwards, the other mapping has {v_!r}')
        old_items = [x for x in raw_before if type(x).__name__ == 'MetaItem']
        if not same_list([x for x in raw_now if _in(x, raw_before)], raw_before) or len(raw_now) != len(raw_before) + len([k_ for k_ in first if k_ not in {x.key for x in old_items}]):
            return (tag + ':shape', f'{op}: raw list went from {_show(raw_before)} to {_show(raw_now)}; existing entries keep their place and one item per new key is appended')
    elif name == 'setdefault':
        if match is not None and not same_list(raw_now, raw_before):
            return (tag, f'{op}: key present but raw list changed')
        if match is None and (len(raw_now) != len(raw_before) + 1 or getattr(raw_now[-1], 'key', None) != key):
            return (tag, f'{op}: key absent, expected one appended item')
    return None


# --------------------------------------------------------------------------- generation

LISTY = ['transaction', 'note', 'document', 'open', 'custom', 'balance', 'close', 'price']


def _build(tier: str):
    cfg = L.Cfg(max_dirs=3, comments=0.45, blank=0.2)
    nmax = 12 if tier == 'quick' else 30

    def parse(t: str) -> Any:
        return common.parse_file(t)

    def build(rnd: Any) -> dict:
        g = L.G(rnd, cfg)
        groups = []
        for _ in range(g.n(1, 3)):
            groups.append(g.directive(g.pick(LISTY))['lines'])
            if g.p(0.5):
                groups.append(g.trivia() or [[]])
        chunks = L.merge_comments([c for c in (g.join_lines(x) for x in groups) if c])
        case = {'dirs': chunks, 'ops': [], 'prime': g.p(0.5)}
        try:
            root = parse(L.text_of(chunks))
        except Exception:  # noqa: BLE001
            return case
        if case['prime']:
            try:
                prime(root)
            except Exception:  # noqa: BLE001
                pass
        focus = None
        sticky = None
        for _ in range(g.n(1, nmax)):
            cands = OPS.candidates(root, {'list', 'clist', 'fview', 'rawmeta', 'meta', 'sview', 'cview'})
            if not cands:
                break
            if focus is None or g.p(0.15):
                m0 = cands[g.n(0, len(cands) - 1)][0]
                focus = id(m0)
            fc = [x for x in cands if id(x[0]) == focus] or cands
            m, p, cname, mi = fc[g.n(0, len(fc) - 1)]
            if sticky and sticky[1] > 0:
                # the list that has just been replaced by a copy of another model's list is edited next: the copy must have cut every tie
                # to the list it was copied from (round 8, seed C03-h)
                hit = [x for x in cands if x[2] == sticky[0][0] and x[3] == sticky[0][1] and x[1].name == sticky[0][2]]
                sticky = (sticky[0], sticky[1] - 1)
                if hit:
                    m, p, cname, mi = hit[0]
            elif g.p(0.12):
                # comments handed over between a list and its neighbours: releasing / claiming them changes the raw list while the views exist
                cl = [x for x in fc if x[1].kind == 'clist']
                if cl and g.p(0.7):
                    m, p, cname, mi = cl[g.n(0, len(cl) - 1)]
                    case['ops'].append({'f': 'claim', 'cls': cname, 'mi': mi, 'prop': p.name,
                                        'op': g.pick(['unclaim_interleaving_comments', 'unclaim_interleaving_comments', 'claim_interleaving_comments'])})
                else:
                    case['ops'].append({'f': 'claim', 'cls': cname, 'mi': mi,
                                        'op': g.pick(['auto', 'unclaim_leading_comment', 'unclaim_trailing_comment', 'claim_leading_comment', 'claim_trailing_comment'])})
                try:
                    OPS.resolve(root, case['ops'][-1]).run()
                except Exception:  # noqa: BLE001
                    case['ops'].pop()
                continue
            same = OPS.index_models(root).get(cname, [])
            try:
                if p.kind in ('list', 'clist') and len(same) >= 2 and not (sticky and sticky[1] > 0) and g.p(0.1):
                    # whole-field assignment from ANOTHER model of the class (whose views exist when the case is primed)
                    op = {'f': 'list', 'cls': cname, 'mi': mi, 'prop': p.name, 'op': 'assign', 'src': {'cls': cname, 'mi': (mi + g.n(1, len(same) - 1)) % len(same)}}
                else:
                    op = OPS.gen_for(g, root, m, p, cname, mi)
            except Exception:  # noqa: BLE001
                break
            if op is None or op.get('op') == 'reverse' and op['f'] == 'list':
                continue
            if op.get('op') == 'assign':
                sticky = ((cname, mi, p.name), 2)
            case['ops'].append(op)
            try:
                OPS.resolve(root, op).run()
            except OPS.NotApplicable:
                case['ops'].pop()
            except Exception:  # noqa: BLE001
                break
        return case
    return build


def _enum(bound: int, maxn: int):
    rng = [None, *range(-bound, bound + 1)]
    for n in range(0, maxn + 1):
        tl = ' '.join(('#t%d' % i) if i % 2 == 0 else ('^l%d' % i) for i in range(n))
        text = f'2000-01-01 note Assets:A "x" {tl}'.rstrip() + '\n'
        dirs = [[['X', text]]]
        ntags = (n + 1) // 2
        for prop, size, fam in (('raw_tags_links', n, 'list'), ('tags', ntags, 'view'), ('links', n // 2, 'view')):
            for i, j, k in itertools.product(rng, rng, rng):
                if k == 0:
                    continue
                r = range(size)[slice(i, j, k)]
                for prime_ in (True, False):
                    base_op = {'f': fam, 'cls': 'Note', 'mi': 0, 'prop': prop, 'i': i, 'j': j, 'k': k}
                    yield {'dirs': dirs, 'prime': prime_, 'ops': [{**base_op, 'op': 'delslice'}]}
                    counts = {len(r), 0, 2} if k in (None, 1) else {len(r)}
                    for c in sorted(counts):
                        if fam == 'list':
                            extra = {'donors': [{'k': 'TAG', 't': '#n%d' % q} for q in range(c)]}
                        else:
                            extra = {'vals': [{'vt': 'str', 'v': 'n%d' % q} for q in range(c)]}
                        yield {'dirs': dirs, 'prime': prime_, 'ops': [{**base_op, 'op': 'setslice', **extra},
                                                                     {'f': 'list', 'cls': 'Note', 'mi': 0, 'prop': 'raw_tags_links', 'op': 'append',
                                                                      'donors': [{'k': 'LINK', 't': '^z'}]}]}


def _enum_meta(maxn: int):
    """Every keyed operation on meta mappings over every key layout of up to maxn items drawn from {aa, bb} (so duplicates of a key are the
    common case), with and without standalone comments between the items, on a transaction header, on a posting and on a one-line
    directive; primed and lazy."""
    hosts = (('Transaction', '2000-01-01 *\n', '    ', '    Assets:A  1 USD\n'),
             ('Posting', '2000-01-01 *\n    Assets:A  1 USD\n', '        ', '    Assets:B  2 USD\n'),
             ('Close', '2000-01-01 close Assets:A\n', '  ', ''))
    layouts = [(keys, comments) for n in range(0, maxn + 1) for keys in itertools.product(('aa', 'bb'), repeat=n) for comments in (None, 'indented', 'unindented')]
    for (cls, head, ind, tail), (keys, comments) in itertools.product(hosts, layouts):
        # an indented comment is claimed by the item below it; an unindented one stays a standalone entry of the raw list
        cind = {None: None, 'indented': ind, 'unindented': ''}[comments]
        # (the grammar takes an unindented comment only directly below the header line, so that mode has one comment, before the first item)
        body = ''.join((f'{cind}; c{i}\n' if cind is not None and (cind or (i == 0 and cls != 'Posting')) else '') + f'{ind}{k}: "v{i}"\n' for i, k in enumerate(keys))
        dirs = [[['X', head + body + tail]]]
        for prop, key, name, prime_ in itertools.product(('meta', 'raw_meta'), ('aa', 'bb', 'cc'),
                                                         ('set', 'del', 'pop', 'pop_default', 'setdefault'), (True, False)):
            op = {'f': 'map', 'cls': cls, 'mi': 0, 'prop': prop, 'op': name, 'key': key}
            if prop == 'meta':
                op['v'] = {'vt': 'str', 'v': 'new'}
            else:
                op['donor'] = {'k': 'meta_item', 't': f'{ind}{key}: "new"\n'}
            yield {'dirs': dirs, 'prime': prime_, 'ops': [op, {**op, 'op': 'pop_default'}]}
        for prop, prime_ in itertools.product(('meta', 'raw_meta'), (True, False)):
            yield {'dirs': dirs, 'prime': prime_, 'ops': [{'f': 'map', 'cls': cls, 'mi': 0, 'prop': prop, 'op': 'popitem', 'key': 'aa'}] * 2}
    # update() from another model's mapping: every pair of key layouts of <= 2 items
    small = [keys for n in range(0, 3) for keys in itertools.product(('aa', 'bb'), repeat=n)]
    for k1, k2, prime_ in itertools.product(small, small, (True, False)):
        text = ''.join(f'2000-01-0{d + 1} close Assets:A\n' + ''.join(f'  {k}: {10 * d + i}\n' for i, k in enumerate(ks)) for d, ks in enumerate((k1, k2)))
        yield {'dirs': [[['X', text]]], 'prime': prime_, 'ops': [{'f': 'map', 'cls': 'Close', 'mi': 0, 'prop': 'meta', 'op': 'update', 'key': 'x', 'sel': 0}]}


def _enum_assign():
    """Whole-field assignment from another model, then every small edit of the assigned list and of the donor's list, primed and lazy: a copied
    list must have cut every tie to the list it was copied from (update handlers, index tables)."""
    hosts = [('Note', 'raw_tags_links', '2000-01-01 note Assets:A "x" #a ^l #b\n2000-01-02 note Assets:B "y" ^m #c ^n\n',
              [{'k': 'LINK', 't': '^z'}], [{'k': 'TAG', 't': '#z'}]),
             ('Transaction', 'raw_tags_links', '2000-01-01 * "x" #a ^l #b\n  Assets:A  1 USD\n2000-01-02 * "y" ^m #c\n  Assets:B  2 USD\n',
              [{'k': 'LINK', 't': '^z'}], [{'k': 'TAG', 't': '#z'}]),
             ('Open', 'raw_currencies', '2000-01-01 open Assets:A USD, EUR\n2000-01-02 open Assets:B GBP\n',
              [{'k': 'CURRENCY', 't': 'CAD'}], [{'k': 'CURRENCY', 't': 'JPY'}]),
             ('Custom', 'raw_values', '2000-01-01 custom "t" "a" Assets:A 5\n2000-01-02 custom "u" TRUE "b"\n',
              [{'k': 'ESCAPED_STRING', 't': '"z"'}], [{'k': 'ACCOUNT', 't': 'Assets:Z'}])]
    for (cls, prop, text, d1, d2), dst, prime_ in itertools.product(hosts, (0, 1), (True, False)):
        assign = {'f': 'list', 'cls': cls, 'mi': dst, 'prop': prop, 'op': 'assign', 'src': {'cls': cls, 'mi': 1 - dst}}
        edits = [{'op': 'insert', 'i': 0, 'donors': d1}, {'op': 'insert', 'i': 1, 'donors': d2}, {'op': 'append', 'donors': d1}, {'op': 'pop', 'i': 0},
                 {'op': 'pop', 'i': -1}, {'op': 'delslice', 'i': 0, 'j': 2, 'k': None}, {'op': 'clear'}, {'op': 'extend', 'donors': d1 + d2}]
        for e1, e2, side in itertools.product(edits, edits, (0, 1)):
            # first edit on the assigned list, second on the assigned list or on the donor's own list
            yield {'dirs': [[['X', text]]], 'prime': prime_,
                   'ops': [assign, {'f': 'list', 'cls': cls, 'mi': dst, 'prop': prop, **e1},
                           {'f': 'list', 'cls': cls, 'mi': dst if side == 0 else 1 - dst, 'prop': prop, **e2}]}


def jobs(tier: str) -> list[Job]:
    if tier == 'quick':
        return [Job('histories', 'hyp', lambda: _build(tier), 3000),
                Job('enum-slices', 'enum', lambda: _enum(3, 3), exhaustive=True),
                Job('enum-meta', 'enum', lambda: _enum_meta(3), exhaustive=True),
                Job('enum-assign', 'enum', _enum_assign, exhaustive=True),
                Job('list-sweep', 'enum', sweeps.list_sweep, exhaustive=True)]
    return [Job('histories', 'hyp', lambda: _build(tier), 120000),
            Job('enum-slices', 'enum', lambda: _enum(6, 4), exhaustive=True),
            Job('enum-meta', 'enum', lambda: _enum_meta(5), exhaustive=True),
            Job('enum-assign', 'enum', _enum_assign, exhaustive=True),
            Job('list-sweep', 'enum', sweeps.list_sweep, exhaustive=True)]
