"""C02 - changing one token changes only that token's characters."""
from __future__ import annotations

from typing import Any

from autobean_refactor import models
from autobean_refactor.models import base
from autobean_refactor.models.block_comment import BlockComment

from vf.gen import donors as D, ledger as L, ops as OPS, store as GS
from vf.obs import core as O
from vf.props import common
from vf.run import Job, Result

ID = 'C02'
RULE = ('A generated ledger (G1, either attribution mode, load factor 4 in a third of the cases so that the document spans many store '
        'blocks) and a program of 1-8 assignments, each to one token chosen over the whole store (comments, indents, zero-width marks, '
        'multi-line strings included): value (from the class\'s value domain), raw_text (a lexeme of the class; any string for simple '
        'tokens) or indent (block comments). Oracle after each step: same token objects in the same order, every other token\'s text '
        'unchanged, printed file == old text with exactly the target\'s character span replaced by its new raw text, every enclosing '
        'model prints its old text with the same splice, and for value assignments raw_text == from_value(v).raw_text. '
        'Non-trivial = document with >= 3 directives, target neither first nor last token, new text of different length or with a line break.')
ASSUMPTIONS = ['an assignment that raises (text outside the class\'s language) ends the program; refusals are C19\'s subject']
SHRINK_LISTS = ('ops', 'dirs')
REQUIRED_CLASSES = ('kind:value', 'kind:raw', 'kind:indent', 'respelling', 'same-token-again', 'lf:4', 'tok:BLOCK_COMMENT', 'tok:ESCAPED_STRING', 'tok:INDENT', 'zero-width-target')


def run_case(case: dict) -> Result:
    res = Result()
    old = GS.set_lf(int(case.get('lf', 1000)))
    try:
        return _run(case, res)
    finally:
        GS.restore_lf(old)


def _run(case: dict, res: Result) -> Result:
    root = common.parse_case(case, claim=bool(case.get('claim', True)))
    if root is None:
        return Result(discard=True)
    classes = {'lf:%d' % int(case.get('lf', 1000))}
    ndirs = len(root.raw_directives)
    for op in case['ops']:
        if op.get('f') != 'tok':
            continue
        try:
            a = OPS.resolve(root, op)
        except OPS.NotApplicable:
            continue
        t = a.P
        order = O.Order(root.token_store)
        i = order.ord(t)
        if i is None:
            continue
        toks = order.tokens
        texts = [x.raw_text for x in toks]
        enclosing = []
        for m, _ in O.walk(root, order):
            if isinstance(m, base.RawTreeModel):
                try:
                    a0, b0 = order.ord(m.first_token), order.ord(m.last_token)
                except Exception:  # noqa: BLE001
                    continue
                if a0 is not None and b0 is not None and a0 <= i <= b0:
                    enclosing.append((m, a0, b0))
        try:
            a.run()
        except Exception:  # noqa: BLE001 - a refusal; C19 looks at the state afterwards
            classes.add('refused')
            break
        kind = op['kind']
        classes.add('kind:' + kind)
        classes.add('tok:' + op['cls'])
        if op.get('respell'):
            classes.add('respelling')
        if op.get('same_token'):
            classes.add('same-token-again')
        if texts[i] == '':
            classes.add('zero-width-target')
        key = f"{op['cls']}:{kind}"
        now = O.store_tokens(root.token_store)
        if len(now) != len(toks) or any(x is not y for x, y in zip(now, toks)):
            res.bad(f'store-changed:{key}', f'{op}: the token list changed (identity/order/length) - {len(toks)} -> {len(now)} tokens')
            break
        for j, x in enumerate(now):
            if j != i and x.raw_text != texts[j]:
                res.bad(f'other-token-changed:{key}', f'{op} on token #{i} also changed token #{j}: {texts[j]!r} -> {x.raw_text!r}')
                break
        if res.violations:
            break
        new_text = t.raw_text
        expect = ''.join(texts[:i]) + new_text + ''.join(texts[i + 1:])
        got = O.print_text(root)
        if got != expect:
            res.bad(f'print:{key}', f'{op}: printed {got!r}, expected the input with only token #{i} replaced: {expect!r}')
            break
        for m, a0, b0 in enclosing:
            exp_m = ''.join(texts[a0:i]) + new_text + ''.join(texts[i + 1:b0 + 1])
            try:
                got_m = O.print_text(m)
            except Exception as e:  # noqa: BLE001
                res.bad(f'enclosing-print-raised:{key}', f'{op}: printing enclosing {type(m).__name__} raised {e!r}')
                break
            if got_m != exp_m:
                res.bad(f'enclosing-print:{key}', f'{op}: enclosing {type(m).__name__} prints {got_m!r}, expected {exp_m!r}')
                break
        if res.violations:
            break
        if kind in ('raw', 'indent') and t.raw_text != op['t'] and kind == 'raw':
            res.bad(f'raw-text-not-assigned:{key}', f'{op}: the token\'s raw_text is {t.raw_text!r} after assigning {op["t"]!r}')
            break
        if kind == 'indent' and isinstance(t, BlockComment):
            try:
                old = BlockComment.from_raw_text(texts[i])
                ref_i = BlockComment.from_value(old.value, indent=op['t']).raw_text
            except Exception:  # noqa: BLE001
                ref_i = None
            if ref_i is not None and new_text != ref_i:
                res.bad(f'indent-format:{key}', f'{op} on {texts[i]!r}: raw text is {new_text!r}, the same comment re-indented is {ref_i!r}')
                break
        if kind == 'value':
            v = a.ref['value']
            try:
                if isinstance(t, BlockComment):
                    # the indent is what the text before the assignment says, not what the token remembers
                    ref = type(t).from_value(v, indent=BlockComment.from_raw_text(texts[i]).indent).raw_text
                else:
                    ref = type(t).from_value(v).raw_text
            except Exception:  # noqa: BLE001
                ref = None
            if ref is not None and new_text != ref:
                res.bad(f'value-format:{key}', f'{op}: raw text is {new_text!r}, from_value gives {ref!r}')
                break
        if ndirs >= 3 and 0 < i < len(toks) - 1 and (len(new_text) != len(texts[i]) or '\n' in new_text):
            res.nontrivial = True
    res.classes = sorted(classes)
    return res


def _build(tier: str):
    cfg = L.Cfg(max_dirs=6 if tier == 'quick' else 12)

    def build(rnd: Any) -> dict:
        g = L.G(rnd, cfg)
        claim = g.p(0.7)
        lf = 4 if g.p(0.34) else 1000
        old = GS.set_lf(lf)
        case: dict = {'dirs': g.document(), 'ops': [], 'claim': claim, 'lf': lf}
        try:
            try:
                root = common.parse_file(L.text_of(case['dirs']), claim)
            except Exception:  # noqa: BLE001
                return case
            prev = None
            for _ in range(g.n(1, 8)):
                op = OPS.gen_tok(g, root, ('value', 'raw', 'indent'))
                if op is None:
                    continue
                if prev is not None and g.p(0.45):
                    # another assignment to the same token: a stale cached field of the first shows in the second
                    rule = prev['cls']
                    kinds = ['raw'] + (['value'] if rule in OPS.TOKEN_VALUE_CLASSES else []) + (['indent'] if rule == 'BLOCK_COMMENT' else [])
                    kind = g.pick(kinds)
                    op = {'f': 'tok', 'cls': rule, 'ti': prev['ti'], 'kind': kind}
                    if kind == 'value':
                        op['v'] = OPS.token_value(g, rule)
                    elif kind == 'raw':
                        op['t'] = OPS.token_lexeme(g, rule)
                    else:
                        op['t'] = g.chars(' \t', 0, 5)
                    op['same_token'] = True
                case['ops'].append(op)
                prev = op
                try:
                    OPS.resolve(root, op).run()
                except OPS.NotApplicable:
                    case['ops'].pop()
                except Exception:  # noqa: BLE001
                    break
        finally:
            GS.restore_lf(old)
        return case
    return build


def jobs(tier: str) -> list[Job]:
    return [Job('assignments', 'hyp', lambda: _build(tier), 3000 if tier == 'quick' else 150000)]
