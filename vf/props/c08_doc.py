"""C08 parts (b) documents and (c) editor error line."""
from __future__ import annotations

import os
import re
import shutil
import tempfile
from typing import Any

from autobean_refactor import editor as editor_lib

from vf.gen import ledger as L, ops as OPS, store as GS
from vf.obs import core as O
from vf.props import common
from vf.props.c08 import check_positions, positions
from vf.run import Job, Result

FAMILIES = ['tokraw', 'tokraw', 'tok', 'list', 'opt', 'val', 'space', 'copyins', 'popins']


def run_doc_case(case: dict) -> Result:
    res = Result()
    old = GS.set_lf(int(case.get('lf', 1000)))
    try:
        root = common.parse_case(case)
        if root is None:
            return Result(discard=True)
        classes = {'doc:lf:%d' % int(case.get('lf', 1000))}
        store = root.token_store
        r = check_positions(store, O.store_tokens(store), 'parse', 'parse')
        if r:
            return res.bad('doc:' + r[0], r[1])
        for op in case['ops']:
            try:
                a = OPS.resolve(root, op)
            except OPS.NotApplicable:
                continue
            before_lines = O.store_text(store).count('\n')
            try:
                a.run()
            except Exception:  # noqa: BLE001
                break
            classes.add('doc:fam:' + a.family)
            toks = O.store_tokens(store)
            if O.store_text(store).count('\n') != before_lines and a.family == 'tok':
                classes.add('doc:token-update-changed-lines')
                res.nontrivial = True
            if a.family == 'tok' and a.P is not toks[-1]:
                res.nontrivial = True
            r = check_positions(store, toks, str(op), f'{a.family}:{a.op.get("kind", a.op.get("op", ""))}')
            if r:
                res.bad('doc:' + r[0], r[1])
                break
        res.classes = sorted(classes)
        return res
    finally:
        GS.restore_lf(old)


def run_editor_case(case: dict) -> Result:
    """A file with an include that matches nothing: the line in the error message is the directive's position."""
    res = Result()
    text = L.text_of(case['dirs'])
    root = common.parse_case(case)
    if root is None:
        return Result(discard=True)
    incs = [d for d in root.raw_directives if type(d).__name__ == 'Include']
    if not incs:
        return Result(discard=True)
    first = incs[0]
    order = O.Order(root.token_store)
    exp_line = positions([t.raw_text for t in order.tokens])[order.ord(first.first_token)][0]
    tmp = tempfile.mkdtemp(prefix='vf-c08-')
    try:
        path = os.path.join(tmp, 'main.bean')
        with open(path, 'w', newline='') as f:
            f.write(text)
        try:
            with editor_lib.Editor(common.parser()).edit_file_recursive(path):
                pass
        except ValueError as e:
            m = re.search(r':(\d+)\)$', str(e))
            if not m:
                return res
            res.classes = ['editor:no-match-message']
            res.nontrivial = exp_line > 0
            if int(m.group(1)) != exp_line:
                res.bad('editor:line', f'error message {str(e)!r} names line {m.group(1)}, the include starts on line {exp_line} (0-based) of {text!r}')
        except Exception:  # noqa: BLE001 - other editor failures are C16's
            pass
    finally:
        shutil.rmtree(tmp, ignore_errors=True)
    return res


def _build_doc(tier: str):
    cfg = L.Cfg(max_dirs=5 if tier == 'quick' else 10)

    def build(rnd: Any) -> dict:
        g = L.G(rnd, cfg)
        lf = 4 if g.p(0.5) else 1000
        old = GS.set_lf(lf)
        try:
            case = OPS.build_program(rnd, cfg, FAMILIES, 8 if tier == 'quick' else 20, common.parse_file)
        finally:
            GS.restore_lf(old)
        case['kind'], case['lf'] = 'doc', lf
        return case
    return build


def _build_editor(tier: str):
    cfg = L.Cfg(max_dirs=4, crlf=0.0)

    def build(rnd: Any) -> dict:
        g = L.G(rnd, cfg)
        groups = []
        for _ in range(g.n(0, 4)):
            groups.append(g.directive(g.pick(['open', 'close', 'note', 'transaction', 'option']))['lines'])
            t = g.trivia()
            if t:
                groups.append(t)
        lead = [[g.comment_block(False)]] if g.p(0.3) else []
        groups.append(lead + [[['INCLUDE', 'include'], ['WHITESPACE', ' '], ['ESCAPED_STRING', '"no-such-file-%d.bean"' % g.n(0, 9)]]])
        chunks = L.merge_comments([c for c in (g.join_lines(x) for x in groups) if c])
        return {'kind': 'editor', 'dirs': chunks, 'ops': []}
    return build


def jobs(tier: str) -> list[Job]:
    if tier == 'quick':
        return [Job('doc-programs', 'hyp', lambda: _build_doc(tier), 2000), Job('editor-line', 'hyp', lambda: _build_editor(tier), 150)]
    return [Job('doc-programs', 'hyp', lambda: _build_doc(tier), 80000), Job('editor-line', 'hyp', lambda: _build_editor(tier), 3000)]
