"""C09 - a value written through a property is the value read back, siblings unaffected."""
from __future__ import annotations

import datetime
import decimal
import itertools
from typing import Any, Optional

import lark

from autobean_refactor import models
from autobean_refactor.models import base

from vf.gen import donors as D, ledger as L, ops as OPS, schema as S
from vf.obs import core as O
from vf.props import common
from vf.run import Job, Result

ID = 'C09'
RULE = ('(a) generic: a generated ledger, then 1-6 assignments to value-level properties (every class x every value property from the schema x in-domain '
        'values incl. None for optional ones): read-back == written, every other value property of the same model reads as before (dependent groups '
        'aside), and both hold again on the model found at the same place in parse(print(document)). (b) cost group: initial forms {}, {{}}, number, '
        'currency, amount, compound amount with either number missing, in unit and total braces, with/without date, label, * (46 forms); every '
        'assignment sequence of length <= 2 (thorough <= 3) over 3 values per field of number_per / number_total / currency / date / label / merge '
        '(bounded-exhaustive) plus random sequences up to length 8, against a record-of-optionals reference with exactly the documented rejections '
        '(second number without a currency; clearing the currency while both numbers are set), compared on the live object and on the re-parsed print. '
        '(c) payee / narration from 0, 1 and 2 initial strings, all sequences of length <= 3 over {None, "", "x"} per field and random longer ones, '
        'against the pair reference with the payee-implies-narration rule. Non-trivial = (a) the property changed presence state, (b)/(c) a sequence of '
        '>= 2 assignments that changes the concrete form at least once.')
RULE = RULE + " Round 8: a value after which the document no longer parses is a violation of 'survives print and re-parse' (outside the layouts of C06's open findings)."
ASSUMPTIONS = ['which concrete syntax form a cost takes is not asserted', 'Transaction.string0/1/2 (grammar artefacts behind payee/narration) are not assigned or compared']
SHRINK_LISTS = ('ops', 'dirs')
REQUIRED_CLASSES = ('part:generic', 'part:cost', 'part:payee', 'cost:rejection', 'cost:form-changed', 'generic:presence-changed', 'reparsed')

COST_FIELDS = ['number_per', 'number_total', 'currency', 'date', 'label', 'merge']
SKIP_PROPS = {'string0', 'string1', 'string2'}


def norm(v: Any) -> Any:
    if isinstance(v, int) and not isinstance(v, bool):
        v = decimal.Decimal(v)   # an int written as a number is that number
    if isinstance(v, base.RawModel):
        return ('model', type(v).__name__, O.print_text(v))
    if isinstance(v, decimal.Decimal):
        return ('dec', v.normalize() if v == v.to_integral_value() and False else str(v), v)
    return v


def eqv(a: Any, b: Any) -> bool:
    if isinstance(a, base.RawModel) or isinstance(b, base.RawModel):
        return isinstance(a, base.RawModel) and isinstance(b, base.RawModel) and type(a) is type(b) and O.print_text(a) == O.print_text(b)
    num = lambda x: isinstance(x, decimal.Decimal) or (isinstance(x, int) and not isinstance(x, bool))  # noqa: E731
    if num(a) and num(b):
        return a == b   # an int written as a number reads back as that number (a Decimal after re-parsing)
    return type(a) == type(b) and a == b


def value_state(m: Any) -> dict:
    out = {}
    for p in S.props_of(m):
        if p.name in SKIP_PROPS:
            continue
        try:
            if p.kind in ('rval', 'oval'):
                out[p.name] = norm(getattr(m, p.name))
            elif p.kind in ('sview', 'cview'):
                out[p.name] = [norm(x) for x in getattr(m, p.name)]
            elif p.kind == 'meta':
                out[p.name] = [(k, norm(v)) for k, v in getattr(m, p.name).items()]
        except Exception as e:  # noqa: BLE001
            out[p.name] = ('raised', type(e).__name__)
    return out


def dependent(cname: str, prop: str) -> set:
    if cname == 'CostSpec' and prop in ('number_per', 'number_total', 'currency'):
        return {'number_per', 'number_total', 'currency'}
    if cname == 'Transaction' and prop in ('payee', 'narration'):
        return {'payee', 'narration'}
    return {prop}


def _duplicate_components(c: Any) -> bool:
    kinds = []
    for x in c.raw_cost.raw_components:
        n = type(x).__name__
        kinds.append('amount-family' if n in ('NumberExpr', 'Currency', 'Amount', 'CompoundAmount') else n)
    return len(kinds) != len(set(kinds))


def reparse(root: Any) -> Optional[Any]:
    try:
        return common.parse_file(O.print_text(root))
    except (lark.exceptions.LarkError, ValueError):
        return None


def run_generic(case: dict) -> Result:
    res = Result()
    root = common.parse_case(case)
    if root is None:
        return Result(discard=True)
    classes = {'part:generic'}
    for op in case['ops']:
        if op.get('f') != 'val':
            continue
        try:
            a = OPS.resolve(root, op)
        except OPS.NotApplicable:
            continue
        P = a.P
        cname = type(P).__name__
        prop = op['prop']
        if prop in SKIP_PROPS or len(dependent(cname, prop)) > 1:
            continue  # the dependent groups have their own reference models below
        if cname == 'CostSpec' and _duplicate_components(P):
            classes.add('skipped-duplicate-cost-components')
            continue  # '{*, *}' or two dates: the record-of-optionals view has one slot per kind; such forms are not started from
        idx0 = OPS.index_models(root)
        mi = next((i for i, m in enumerate(idx0.get(cname, [])) if m is P), None)
        before = value_state(P)
        v = a.ref['value']
        key = f'{cname}.{prop}'
        from vf.props import c06 as _c06
        tight0 = _c06.tight_pairs(root)
        unind_ids0 = _c06.unindented_comment_ids(root)   # the open finding needs an unindented comment in the document beforehand
        try:
            a.run()
        except common.REFUSAL:
            classes.add('refused')
            break
        except ArithmeticError:
            break
        except Exception as e:  # noqa: BLE001
            # not a refusal (those are ValueError / KeyError / IndexError ...): an in-domain value made the setter crash
            res.bad(f'setter-crashed:{key}:{type(e).__name__}', f'{key} = {v!r} raised {e!r}')
            break
        got = getattr(P, prop)
        want = v if not (cname == 'CostSpec' and prop == 'merge') else bool(v)
        if not (eqv(got, want) or (isinstance(want, base.RawModel) and got is want)):
            res.bad(f'read-back:{key}', f'{key} = {v!r} reads back {got!r}')
            break
        after = value_state(P)
        dep = dependent(cname, prop)
        if cname == 'Transaction' and prop in ('payee', 'narration'):
            pass
        for name, old in before.items():
            if name in dep:
                continue
            if after.get(name) != old:
                res.bad(f'sibling-changed:{key}', f'{key} = {v!r} changed {cname}.{name} from {old!r} to {after.get(name)!r}')
                break
        if res.violations:
            break
        if (before.get(prop) is None) != (after.get(prop) is None):
            classes.add('generic:presence-changed')
            res.nontrivial = True
        from vf.props.c06 import ambiguous_custom
        if ambiguous_custom(root):
            break  # documented: a signed number directly after a number in custom values is the caller's to parenthesise
        again = reparse(root)
        if again is None:
            # "survives print and re-parse": a value after which the document no longer parses did not survive. The layouts behind C06's open
            # findings (compact neighbours glued by an insertion or removal, a bare number before a tight comma, an unindented comment inside a
            # body) are C06's and stay there.
            from vf.props import c06
            if (c06.tight_pairs(root) - tight0) or c06.tight_number_comma_number(root) or (c06.unindented_comment_before_body_line(O.print_text(root)) and not (c06.unindented_comment_ids(root) - unind_ids0)) \
                    or any(type(t).__name__ == 'BlockComment' and not t.claimed for t in O.store_tokens(root.token_store)):
                classes.add('unparsable:c06-open-finding-layout')
                break
            res.bad(f'reparse-rejected:{key}', f'{key} = {v!r}: the document now prints {O.print_text(root)!r}, which parse() rejects')
            break
        ms = OPS.index_models(again).get(cname, [])
        if mi is None or len(ms) != len(idx0.get(cname, [])) or mi >= len(ms):
            break
        classes.add('reparsed')
        Q = ms[mi]
        got2 = getattr(Q, prop)
        if prop in ('leading_comment', 'trailing_comment'):
            # which model owns a block comment after re-parsing is exempt; the comment itself must still be in the text
            lines = O.comment_lines(again)
            wanted = [] if want is None else [(';' + (' ' + ln if ln.strip('\r') else ln)).strip(' \t\r') for ln in str(want).split('\n')]
            if any(w not in lines for w in wanted):
                res.bad(f'comment-lost-reparsed:{key}', f'{key} = {v!r}: after print and re-parse the comment lines {wanted!r} are not all present in {lines!r}')
                break
        elif prop == 'inline_comment' and isinstance(want, str) and isinstance(got2, str) and got2.rstrip(' \t') == want.rstrip(' \t'):
            pass
        elif not eqv(got2, want):
            res.bad(f'read-back-reparsed:{key}', f'{key} = {v!r}: after print and re-parse it reads {got2!r} (printed {O.print_text(P)!r})')
            break
        st2 = value_state(Q)
        for name, val in after.items():
            if name in ('inline_comment',):
                if isinstance(val, str) and isinstance(st2.get(name), str) and val.rstrip(' \t') == st2[name].rstrip(' \t'):
                    continue
            if name in ('leading_comment', 'trailing_comment'):
                continue  # attribution is exempt
            if st2.get(name) != val:
                res.bad(f'reparsed-state:{cname}.{name}', f'after {key} = {v!r}: {cname}.{name} is {val!r} in memory but {st2.get(name)!r} after print and re-parse')
                break
        if res.violations:
            break
    res.classes = sorted(classes)
    return res


# --------------------------------------------------------------------------- cost group

def cost_forms() -> list[dict]:
    """Initial concrete forms with the record each denotes."""
    forms = []
    n1, n2, cur = '1.5', '20', 'USD'
    bases = [
        ('', {}),
        (n1, {'num': n1}),
        (cur, {'currency': cur}),
        (f'{n1} {cur}', {'num': n1, 'currency': cur}),
        (f'{n1} # {n2} {cur}', {'number_per': n1, 'number_total': n2, 'currency': cur}),
        (f'{n1} # {cur}', {'number_per': n1, 'currency': cur}),
        (f'# {n2} {cur}', {'number_total': n2, 'currency': cur}),
        # the same compound forms without blanks around the '#'
        (f'{n1}# {n2} {cur}', {'number_per': n1, 'number_total': n2, 'currency': cur}),
        (f'{n1}#{n2} {cur}', {'number_per': n1, 'number_total': n2, 'currency': cur}),
        (f'{n1}#{cur}', {'number_per': n1, 'currency': cur}),
        (f'#{n2} {cur}', {'number_total': n2, 'currency': cur}),
        # number and currency as two separate components (legal for the grammar; each is read from wherever it stands)
        (f'{n1}, {cur}', {'num': n1, 'currency': cur}),
        (f'{cur}, {n1}', {'num': n1, 'currency': cur}),
    ]
    extras = [('', {}), ('2000-01-02', {'date': '2000-01-02'}), ('"lot"', {'label': 'lot'}), ('*', {'merge': True}),
              ('2000-01-02, "lot", *', {'date': '2000-01-02', 'label': 'lot', 'merge': True})]
    for total in (False, True):
        for btxt, brec in bases:
            for etxt, erec in extras:
                if etxt and btxt in ('', cur) and erec.get('merge') and len(erec) == 1 and False:
                    continue
                inner = ', '.join(x for x in (btxt, etxt) if x)
                rec = {f: None for f in COST_FIELDS}
                rec['merge'] = False
                for k, v in {**brec, **erec}.items():
                    if k == 'num':
                        rec['number_total' if total else 'number_per'] = v
                    else:
                        rec[k] = v
                text = ('{{' + inner + '}}') if total else ('{' + inner + '}')
                forms.append({'text': text, 'rec': rec})
    return forms


COST_VALUES = {
    'number_per': [None, '0', '4.25'], 'number_total': [None, '0.00', '8.5'], 'currency': [None, 'EUR', 'CAD'],
    'date': [None, '2001-02-03', '1999-12-31'], 'label': [None, 'a', 'b "q"'], 'merge': [False, True],
}


def to_py(field: str, v: Any) -> Any:
    if v is None:
        return None
    if field in ('number_per', 'number_total'):
        return decimal.Decimal(v)
    if field == 'date':
        return datetime.date.fromisoformat(v)
    return v


def cost_ref_step(rec: dict, field: str, v: Any) -> Optional[dict]:
    """Returns the new record, or None when the documented rules reject the assignment."""
    new = dict(rec)
    new[field] = v
    if field in ('number_per', 'number_total') and v is not None:
        other = 'number_total' if field == 'number_per' else 'number_per'
        if rec[other] is not None and rec['currency'] is None:
            return None
    if field == 'currency' and v is None and rec['number_per'] is not None and rec['number_total'] is not None:
        return None
    return new


def read_cost(c: Any) -> dict:
    return {'number_per': c.number_per, 'number_total': c.number_total, 'currency': c.currency, 'date': c.date, 'label': c.label, 'merge': c.merge}


def rec_py(rec: dict) -> dict:
    return {f: (bool(rec[f]) if f == 'merge' else to_py(f, rec[f])) for f in COST_FIELDS}


def run_cost(case: dict) -> Result:
    res = Result()
    classes = {'part:cost'}
    text = '2000-01-01 *\n  Assets:A 10 STK ' + case['form'] + ' @ 2 USD\n  Assets:B\n'
    try:
        root = common.parse_file(text)
    except (lark.exceptions.LarkError, ValueError):
        return Result(discard=True)
    c = root.raw_directives[0].raw_postings[0].raw_cost
    rec = dict(case['rec'])
    got = read_cost(c)
    if got != rec_py(rec):
        res.bad('cost-initial-read', f'{case["form"]} reads {got!r}, the form denotes {rec_py(rec)!r}')
        res.classes = sorted(classes)
        return res
    form0 = (type(c.raw_cost).__name__, [type(x).__name__ for x in c.raw_cost.raw_components])
    changed_form = False
    for step in case['ops']:
        field, v = step['field'], step['v']
        new = cost_ref_step(rec, field, v)
        pyv = bool(v) if field == 'merge' else to_py(field, v)
        before_text = O.print_text(root)
        try:
            setattr(c, field, pyv)
            raised = None
        except ValueError as e:
            raised = e
        except Exception as e:  # noqa: BLE001
            res.bad(f'cost-raised:{field}:{type(e).__name__}', f'{case["form"]} after {case["ops"]}: {field} = {v!r} raised {e!r}')
            break
        key = f'{field}={"None" if v is None else "value"}'
        if new is None:
            classes.add('cost:rejection')
            if raised is None:
                res.bad(f'cost-not-rejected:{key}', f'{case["form"]} with state {rec}: {field} = {v!r} must be rejected (documented) but was accepted: {O.print_text(c)!r}')
                break
            if O.print_text(root) != before_text or read_cost(c) != rec_py(rec):
                res.bad(f'cost-rejected-but-changed:{key}', f'{case["form"]}: rejected {field} = {v!r} changed the cost to {O.print_text(c)!r}')
                break
            continue
        if raised is not None:
            res.bad(f'cost-unexpected-rejection:{key}', f'{case["form"]} with state {rec}: {field} = {v!r} raised {raised!r}; the documented rules allow it')
            break
        rec = new
        got = read_cost(c)
        if got != rec_py(rec):
            diff = {f: (got[f], rec_py(rec)[f]) for f in COST_FIELDS if got[f] != rec_py(rec)[f]}
            res.bad(f'cost-state:{key}:{"+".join(sorted(diff))}', f'{case["form"]} after steps up to {step}: getters {got!r}, record {rec_py(rec)!r}; cost prints {O.print_text(c)!r}')
            break
        form1 = (type(c.raw_cost).__name__, [type(x).__name__ for x in c.raw_cost.raw_components])
        if form1 != form0:
            changed_form = True
            classes.add('cost:form-changed')
            form0 = form1
        again = reparse(root)
        if again is None:
            res.bad(f'cost-reparse:{key}', f'{case["form"]} after {step}: printed {O.print_text(root)!r} is rejected by parse()')
            break
        classes.add('reparsed')
        c2 = again.raw_directives[0].raw_postings[0].raw_cost
        if c2 is None or read_cost(c2) != rec_py(rec):
            res.bad(f'cost-state-reparsed:{key}', f'{case["form"]} after {step}: printed {O.print_text(c)!r} re-parses to {None if c2 is None else read_cost(c2)!r}, record {rec_py(rec)!r}')
            break
    res.nontrivial = len(case['ops']) >= 2 and changed_form
    res.classes = sorted(classes)
    return res


# --------------------------------------------------------------------------- payee / narration

def run_payee(case: dict) -> Result:
    res = Result()
    classes = {'part:payee'}
    init = case['init']
    text = '2000-01-01 *' + ''.join(' "%s"' % s for s in init) + ' #t\n  Assets:A 1 USD\n'
    try:
        root = common.parse_file(text)
    except (lark.exceptions.LarkError, ValueError):
        return Result(discard=True)
    t = root.raw_directives[0]
    pair = (None, None) if not init else (None, init[0]) if len(init) == 1 else (init[0], init[1])
    if (t.payee, t.narration) != pair:
        return res.bad('payee-initial', f'{text!r} reads payee/narration {(t.payee, t.narration)!r}, expected {pair!r}')
    for step in case['ops']:
        field, v = step['field'], step['v']
        payee, narr = pair
        if field == 'payee':
            payee = v
            if v is not None and narr is None:
                narr = ''
        else:
            narr = v
            if v is None and payee is not None:
                narr = ''
        try:
            setattr(t, field, v)
        except Exception as e:  # noqa: BLE001
            res.bad(f'payee-raised:{field}:{type(e).__name__}', f'{init} then {case["ops"]}: {field} = {v!r} raised {e!r}')
            break
        pair = (payee, narr)
        got = (t.payee, t.narration)
        key = f'{field}={"None" if v is None else "str"}'
        if got != pair:
            res.bad(f'payee-state:{key}', f'from {init} after steps up to {step}: payee/narration read {got!r}, reference {pair!r}; header prints {O.print_text(t).splitlines()[0]!r}')
            break
        again = reparse(root)
        if again is None:
            res.bad(f'payee-reparse:{key}', f'after {step}: {O.print_text(root)!r} is rejected by parse()')
            break
        classes.add('reparsed')
        t2 = again.raw_directives[0]
        if (t2.payee, t2.narration) != pair:
            res.bad(f'payee-state-reparsed:{key}', f'after {step}: printed {O.print_text(t).splitlines()[0]!r} re-parses to {(t2.payee, t2.narration)!r}, reference {pair!r}')
            break
    res.nontrivial = len(case['ops']) >= 2
    res.classes = sorted(classes)
    return res


def run_case(case: dict) -> Result:
    part = case.get('part', 'generic')
    if part == 'cost':
        return run_cost(case)
    if part == 'payee':
        return run_payee(case)
    return run_generic(case)


# --------------------------------------------------------------------------- generation

def _cost_steps() -> list[dict]:
    return [{'field': f, 'v': v} for f in COST_FIELDS for v in COST_VALUES[f]]


def _enum_cost(maxlen: int):
    steps = _cost_steps()
    for form in cost_forms():
        yield {'part': 'cost', 'form': form['text'], 'rec': form['rec'], 'ops': []}
        for n in range(1, maxlen + 1):
            for seq in itertools.product(steps, repeat=n):
                yield {'part': 'cost', 'form': form['text'], 'rec': form['rec'], 'ops': list(seq)}


def _enum_payee(maxlen: int):
    steps = [{'field': f, 'v': v} for f in ('payee', 'narration') for v in (None, '', 'x')]
    for init in ([], ['n'], ['p', 'n'], ['', '']):
        for n in range(0, maxlen + 1):
            for seq in itertools.product(steps, repeat=n):
                yield {'part': 'payee', 'init': init, 'ops': list(seq)}


def _build_generic(tier: str):
    cfg = L.Cfg(max_dirs=4 if tier == 'quick' else 8)

    def build(rnd: Any) -> dict:
        case = OPS.build_program(rnd, cfg, ['val'], 6, common.parse_file)
        case['part'] = 'generic'
        return case
    return build


def _build_cost(tier: str):
    forms = cost_forms()
    steps = _cost_steps()

    def build(rnd: Any) -> dict:
        f = forms[rnd.randint(0, len(forms) - 1)]
        return {'part': 'cost', 'form': f['text'], 'rec': f['rec'], 'ops': [steps[rnd.randint(0, len(steps) - 1)] for _ in range(rnd.randint(3, 8))]}
    return build


def _build_payee(tier: str):
    def build(rnd: Any) -> dict:
        g = L.G(rnd)
        init = [g.chars(L.LOW, 0, 3) for _ in range(g.n(0, 2))]
        ops = [{'field': g.pick(['payee', 'narration']), 'v': g.pick([None, '', g.chars(L.LOW + ' "\\', 0, 4)])} for _ in range(g.n(1, 8))]
        return {'part': 'payee', 'init': [s.replace('"', '').replace('\\', '') for s in init], 'ops': ops}
    return build


def jobs(tier: str) -> list[Job]:
    if tier == 'quick':
        return [Job('generic', 'hyp', lambda: _build_generic(tier), 2000),
                Job('cost-enum', 'enum', lambda: _enum_cost(2), exhaustive=True),
                Job('cost-random', 'hyp', lambda: _build_cost(tier), 1500),
                Job('payee-enum', 'enum', lambda: _enum_payee(3), exhaustive=True),
                Job('payee-random', 'hyp', lambda: _build_payee(tier), 500)]
    return [Job('generic', 'hyp', lambda: _build_generic(tier), 80000),
            Job('cost-enum', 'enum', lambda: _enum_cost(3), exhaustive=True),
            Job('cost-random', 'hyp', lambda: _build_cost(tier), 60000),
            Job('payee-enum', 'enum', lambda: _enum_payee(5), exhaustive=True),
            Job('payee-random', 'hyp', lambda: _build_payee(tier), 20000)]
