"""C03 - adding, removing or replacing a child leaves everything else untouched."""
from __future__ import annotations

import itertools
from typing import Any, Optional

from autobean_refactor.models import base

from vf.gen import ledger as L, ops as OPS, store as GS, sweeps
from vf.obs import core as O
from vf.props import common
from vf.run import Job, Result

ID = 'C03'
RULE = ('(In 30% of the generated programs the token store works with blocks of 4 instead of 1000 tokens, so that the edits split and merge blocks, the first one included, in small documents.) A generated ledger (G1, parsed normally) followed by a state-aware program of 1-5 slot operations: optional / required / '
        'custom-optional raw slots with donors, every value-level property (incl. None), every MutableSequence operation on raw lists, '
        'filtered / string views and meta mappings with every index class; plus the list-operation sweep (every list-bearing field x '
        'length 0..3 x every operation shape). Oracle per step, with P the model owning the slot: (1) tokens before P.first and after '
        'P.last keep identity, order and text and P\'s new span lies exactly between them; (2) every other child of P (list items '
        'included) survives by identity, in order, with the same text; (3) every token that disappeared / appeared lies inside the '
        'removed / inserted child or is a separator-class token (whitespace, newline, list comma) in the separator run touching it, and '
        'surviving tokens keep identity, order and text; (4) P\'s zero-width marks survive. Non-trivial = the document has tokens on both '
        'sides of P and the affected child is not P\'s last child (or the list has >= 2 items and the index is not the end).')
RULE = RULE + " Round 8: assign-then-view-edit enumeration (a list replaced by a deep copy of another model's list, one edit of the copy, one edit through a value view of the donor)."
ASSUMPTIONS = [
    're-parsability of the result is C06\'s; documents parsed with attribution off (and states reached through unclaim) are outside the statement',
    'for the documented dependent groups (cost number/currency family, payee/narration) the group is one logical child',
]
SHRINK_LISTS = ('ops', 'dirs')
REQUIRED_CLASSES = ('lf:4', 'fam:opt', 'fam:req', 'fam:val', 'fam:list', 'fam:view', 'fam:map', 'group')
FAMILIES = ['opt', 'opt', 'req', 'val', 'val', 'list', 'list', 'view', 'view']
SEP = (O.Whitespace, O.Newline, O.Comma)


def flat_children(P: Any, order: O.Order) -> list:
    out = []
    for c in O.children(P, order):
        if isinstance(c, O.Repeated):
            out.append(c.placeholder)
            out.extend(c.items)
        else:
            out.append(c)
    return out


def _toks(m: Any) -> list:
    return [m] if isinstance(m, base.RawTokenModel) else list(m.tokens)


def _group_children(P: Any) -> list:
    if type(P).__name__ == 'Transaction':
        return [x for x in (P.raw_string1, P.raw_string2) if x is not None]
    return []


def run_case(case: dict) -> Result:
    # small store blocks in a share of the cases: the edits then split and merge blocks (the first block included) in small documents
    old = GS.set_lf(int(case.get('lf', 1000)))
    try:
        res = _run_case(case)
        if not res.discard:
            res.classes = sorted(set(res.classes) | {'lf:%d' % int(case.get('lf', 1000))})
        return res
    finally:
        GS.restore_lf(old)


def _run_case(case: dict) -> Result:
    res = Result()
    root = common.parse_case(case)
    if root is None:
        return Result(discard=True)
    classes = set()
    if case.get('prime'):
        from vf.props import c10
        c10.prime(root)
        classes.add('primed')
    for op in case['ops']:
        if op.get('f') == 'claim' and case.get('pinned'):
            # manual attribution (documented) before the edit - only in the committed trigger of the open finding about unowned comments
            try:
                OPS.resolve(root, op).run()
            except Exception:  # noqa: BLE001
                pass
            continue
        if op.get('f') not in ('opt', 'req', 'val', 'list', 'view', 'map') or op.get('op') == 'reverse':
            continue  # reverse() re-orders children: not an add / remove / replace
        try:
            a = OPS.resolve(root, op)
        except OPS.NotApplicable:
            continue
        P = a.P
        if not isinstance(P, base.RawTreeModel):
            continue
        whole_group = type(P).__name__ == 'CostSpec'
        store = root.token_store
        o0 = O.Order(store)
        try:
            a0, b0 = o0.ord(P.first_token), o0.ord(P.last_token)
        except Exception:  # noqa: BLE001
            break
        if a0 is None or b0 is None:
            break
        toks0 = o0.tokens
        texts0 = {id(t): t.raw_text for t in toks0}
        sib0 = flat_children(P, o0)
        sib_text0 = {id(c): O.print_text(c) for c in sib0}
        child_tok0 = {id(c): {id(t) for t in _toks(c)} for c in sib0}
        grp0 = _group_children(P) if a.group else []
        try:
            a.run()
        except common.REFUSAL:
            classes.add('refused')
            break
        except Exception:  # noqa: BLE001 - internal crashes are C05's
            break
        classes.add('fam:' + a.family)
        if a.group:
            classes.add('group')
        key = a.key()
        o1 = O.Order(store)
        toks1 = o1.tokens
        prefix, suffix = toks0[:a0], toks0[b0 + 1:]
        what = f'{op}'
        # (1) outside P
        if len(toks1) < len(prefix) + len(suffix) or any(x is not y for x, y in zip(toks1[:len(prefix)], prefix)) or \
                any(x is not y for x, y in zip(toks1[len(toks1) - len(suffix):], suffix)):
            res.bad(f'outside-identity:{key}', f'{what}: tokens outside {type(P).__name__} changed identity/order')
            break
        bad_text = next((t for t in prefix + suffix if t.raw_text != texts0[id(t)]), None)
        if bad_text is not None:
            res.bad(f'outside-text:{key}', f'{what}: a token outside {type(P).__name__} changed text: {texts0[id(bad_text)]!r} -> {bad_text.raw_text!r}')
            break
        try:
            a1, b1 = o1.ord(P.first_token), o1.ord(P.last_token)
        except Exception as e:  # noqa: BLE001
            res.bad(f'span-raised:{key}', f'{what}: first/last of {type(P).__name__} raised {e!r}')
            break
        if a1 != len(prefix) or b1 != len(toks1) - len(suffix) - 1:
            res.bad(f'span:{key}', f'{what}: {type(P).__name__} now spans tokens {a1}..{b1}, expected exactly {len(prefix)}..{len(toks1) - len(suffix) - 1} '
                    f'(between the unchanged outside tokens)')
            break
        # affected children
        aff_before = list(a.removed) + list(a.changed) + ([a.ref['before']] if a.ref.get('before') is not None else []) + grp0
        aff_after = list(a.inserted) + list(a.changed) + (_group_children(P) if a.group else [])
        aff_ids = {id(x) for x in aff_before + aff_after}
        sib1 = flat_children(P, o1)
        sib1_ids = {id(c) for c in sib1}
        if not whole_group:
            # (2) siblings survive
            survivors = [c for c in sib0 if id(c) not in aff_ids]
            missing = [c for c in survivors if id(c) not in sib1_ids]
            if missing:
                res.bad(f'sibling-lost:{key}', f'{what}: child {type(missing[0]).__name__} {sib_text0[id(missing[0])]!r} of {type(P).__name__} is gone')
                break
            pos1 = {id(c): i for i, c in enumerate(sib1)}
            order_now = [pos1[id(c)] for c in survivors]
            if order_now != sorted(order_now):
                res.bad(f'sibling-order:{key}', f'{what}: the surviving children of {type(P).__name__} changed their relative order')
                break
            for c in survivors:
                t1 = O.print_text(c)
                if t1 != sib_text0[id(c)]:
                    res.bad(f'sibling-text:{key}', f'{what}: sibling {type(c).__name__} printed {sib_text0[id(c)]!r} before and {t1!r} after')
                    break
            if res.violations:
                break
            # (3) token window
            S0, S1 = toks0[a0:b0 + 1], toks1[a1:b1 + 1]
            ids0, ids1 = {id(t) for t in S0}, {id(t) for t in S1}
            surv0 = [t for t in S0 if id(t) in ids1]
            surv1 = [t for t in S1 if id(t) in ids0]
            if any(x is not y for x, y in zip(surv0, surv1)):
                res.bad(f'survivor-order:{key}', f'{what}: surviving tokens of {type(P).__name__} were re-ordered')
                break
            child_before_tok = set()
            for c in aff_before:
                child_before_tok |= child_tok0.get(id(c), set()) or {id(t) for t in _toks(c)}
            child_after_tok = set()
            for c in aff_after:
                try:
                    child_after_tok |= {id(t) for t in _toks(c)}
                except Exception:  # noqa: BLE001
                    pass
            for t in surv1:
                if t.raw_text != texts0[id(t)] and id(t) not in child_before_tok and id(t) not in child_after_tok:
                    res.bad(f'survivor-text:{key}', f'{what}: token {texts0[id(t)]!r} of a sibling became {t.raw_text!r}')
                    break
            if res.violations:
                break
            bad = _window(S0, ids1, child_before_tok)
            gone_unowned = [t for t in S0 if id(t) not in ids1 and id(t) not in child_before_tok and type(t).__name__ == 'BlockComment' and not t.claimed]
            if bad is not None and gone_unowned and child_before_tok:
                # the open finding is about a comment in the gap NEXT TO the removed child: only blanks, line breaks, indents, other comments and
                # zero-width marks between the two; an unowned comment that disappears from anywhere else is not it
                pos = [i for i, t in enumerate(S0) if id(t) in child_before_tok]
                gap = lambda t: t.raw_text == '' or type(t).__name__ in ('Whitespace', 'Newline', 'Indent', 'BlockComment', 'Eol')   # noqa: E731
                lo, hi = min(pos), max(pos)
                while lo > 0 and gap(S0[lo - 1]):
                    lo -= 1
                while hi + 1 < len(S0) and gap(S0[hi + 1]):
                    hi += 1
                near = {id(t) for t in S0[lo:hi + 1]}
                gone_unowned = [t for t in gone_unowned if id(t) in near]
            if bad is not None and gone_unowned:
                bad = gone_unowned[0]
                res.bad('unowned-comment-removed-with-neighbour', f'{what}: the unowned comment {texts0[id(bad)]!r} next to the removed child was deleted with it; '
                        f'before {"".join(texts0[id(t)] for t in S0)!r} after {"".join(t.raw_text for t in S1)!r}')
                break
            if bad is not None:
                res.bad(f'disappeared:{key}', f'{what}: token {type(bad).__name__} {texts0[id(bad)]!r} disappeared from {type(P).__name__} although it is neither '
                        f'part of the removed child nor a separator next to it; before {"".join(texts0[id(t)] for t in S0)!r} after {"".join(t.raw_text for t in S1)!r}')
                break
            bad = _window(S1, ids0, child_after_tok)
            if bad is not None:
                res.bad(f'appeared:{key}', f'{what}: token {type(bad).__name__} {bad.raw_text!r} appeared in {type(P).__name__} although it is neither part of the '
                        f'inserted child nor a separator next to it; before {"".join(texts0[id(t)] for t in S0)!r} after {"".join(t.raw_text for t in S1)!r}')
                break
        # non-triviality
        both_sides = bool(prefix) and bool(suffix)
        affected_positions = [i for i, c in enumerate(sib0) if id(c) in aff_ids]
        real0 = [i for i, c in enumerate(sib0) if not isinstance(c, O.ZERO_WIDTH)]
        not_last = bool(affected_positions) and bool(real0) and max(affected_positions) < max(real0)
        created_not_last = not affected_positions and any(id(c) in {id(x) for x in aff_after} and i < len(sib1) - 1 and
                                                          any(not isinstance(d, O.ZERO_WIDTH) for d in sib1[i + 1:]) for i, c in enumerate(sib1))
        if both_sides and (not_last or created_not_last):
            res.nontrivial = True
    res.classes = sorted(classes)
    return res


def _window(S: list, other_ids: set, child_tok: set) -> Optional[Any]:
    """Tokens of S that are not in the other state must be child tokens or separators in a separator run touching a child token
    (or touching another changed token that is itself allowed)."""
    n = len(S)
    changed = [id(t) not in other_ids for t in S]
    for q, t in enumerate(S):
        if not changed[q] or id(t) in child_tok:
            continue
        if not isinstance(t, SEP):
            return t
        ok = False
        for step in (-1, 1):
            i = q + step
            while 0 <= i < n and (isinstance(S[i], SEP) or S[i].raw_text == '') and id(S[i]) not in child_tok:
                i += step
            if 0 <= i < n and id(S[i]) in child_tok:
                ok = True
                break
        if not ok:
            return t
    return None


def _build(tier: str):
    cfg = L.Cfg(max_dirs=4 if tier == 'quick' else 8)

    def build(rnd: Any) -> dict:
        from vf.props import c10
        lf = 4 if rnd.random() < 0.3 else 1000
        old = GS.set_lf(lf)
        try:
            case = OPS.build_program(rnd, cfg, FAMILIES, 6, common.parse_file, stick=0.7, prime=c10.prime)
        finally:
            GS.restore_lf(old)
        case['lf'] = lf
        return case
    return build


def _assign_then_view_edit():
    """C10's whole-field-assignment enumeration, continued by one edit through a value view of the DONOR model: if the copied list still
    notifies the donor's views, that edit replaces or removes the wrong sibling (round 8, seed C03-h)."""
    from vf.props import c10
    views = {'Note': ('tags', 'str', 'zz'), 'Transaction': ('tags', 'str', 'zz'), 'Open': ('currencies', 'str', 'CHF'), 'Custom': None}
    for case in c10._enum_assign():
        a = case['ops'][0]
        v = views.get(a['cls'])
        if v is None or case['ops'][2]['mi'] != a['mi']:
            continue
        donor = a['src']['mi']
        for last in ({'op': 'set', 'i': 0, 'vals': [{'vt': v[1], 'v': v[2]}]}, {'op': 'pop', 'i': 0, 'vals': []}, {'op': 'del', 'i': -1, 'vals': []}):   # ('vals' marks a value-view operation for the resolver)
            yield {**case, 'ops': case['ops'][:2] + [{'f': 'view', 'cls': a['cls'], 'mi': donor, 'prop': v[0], **last}]}


def _retype_then_view_edit():
    """A raw list whose typed views exist; one item replaced through the raw list by a node of ANOTHER view type (a tag by a link, a string by an
    account ...), by index or by slice; then one edit through each typed view. The views must have followed the change of type (round 9, seed C03-i)."""
    hosts = [('Note', 'raw_tags_links', '2000-01-01 note Assets:A "x" #a ^l #b ^m\n', {'Tag': {'k': 'LINK', 't': '^z'}, 'Link': {'k': 'TAG', 't': '#z'}},
              [('tags', 'zz'), ('links', 'yy')], 4),
             ('Transaction', 'raw_tags_links', '2000-01-01 * "x" #a ^l #b\n  Assets:A  1 USD\n', {'Tag': {'k': 'LINK', 't': '^z'}, 'Link': {'k': 'TAG', 't': '#z'}},
              [('tags', 'zz'), ('links', 'yy')], 3)]
    kinds = {'Note': ['Tag', 'Link', 'Tag', 'Link'], 'Transaction': ['Tag', 'Link', 'Tag']}
    for cls, prop, text, swap, views, n in hosts:
        for i in range(n):
            donor = swap[kinds[cls][i]]
            for first in ({'op': 'set', 'i': i, 'donors': [donor]}, {'op': 'set', 'i': i - n, 'donors': [donor]},
                          {'op': 'setslice', 'i': i, 'j': i + 1, 'k': None, 'donors': [donor]}):
                for (vname, val), j in itertools.product(views, (0, 1, -1)):
                    for last in ({'op': 'set', 'i': j, 'vals': [{'vt': 'str', 'v': val}]}, {'op': 'pop', 'i': j, 'vals': []}, {'op': 'del', 'i': j, 'vals': []}):
                        yield {'dirs': [[['X', text]]], 'prime': True,
                               'ops': [{'f': 'list', 'cls': cls, 'mi': 0, 'prop': prop, **first}, {'f': 'view', 'cls': cls, 'mi': 0, 'prop': vname, **last}]}


def jobs(tier: str) -> list[Job]:
    from vf.props import c10
    return [Job('programs', 'hyp', lambda: _build(tier), 3000 if tier == 'quick' else 100000),
            # histories of several mutations through the aliasing views of one model (C10's generator), judged by this oracle:
            # a stale view removes or replaces the wrong sibling
            Job('aliasing-histories', 'hyp', lambda: c10._build(tier), 2000 if tier == 'quick' else 60000),
            Job('list-sweep', 'enum', sweeps.list_sweep, exhaustive=True),
            Job('slot-sweep', 'enum', sweeps.slot_sweep, exhaustive=True),
            Job('insert-then-edit', 'enum', sweeps.insert_then_edit, exhaustive=True),
            Job('assign-then-view-edit', 'enum', _assign_then_view_edit, exhaustive=True),
            Job('retype-then-view-edit', 'enum', _retype_then_view_edit, exhaustive=True)]
