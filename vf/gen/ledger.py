"""G1/G2 - ledger text generator mirroring beancount.lark rule by rule.

A document is a list of chunks; a chunk is a list of pieces [RULE, text]; the text is the concatenation.
The piece list is an independent record of how the text must be tokenised (zero-width marks are not listed;
adjacent comment lines of one indentation class are one BLOCK_COMMENT piece, as the terminal is defined).

All randomness comes from the `rnd` object (a Hypothesis-controlled Random from st.randoms()).
"""
from __future__ import annotations

import datetime
from typing import Any, Optional

Piece = list  # [rule, text]

UP = 'ABCDEFGHIJKLMNOPQRSTUVWXYZ'
LOW = 'abcdefghijklmnopqrstuvwxyz'
DIG = '0123456789'
NON_ASCII = ['é', 'ß', '中', 'Ω', '\U0001F600', 'ñ', 'Ж']
# not in Unicode normalisation form C / KC: a parser that normalises its input does not reproduce it (round 8, seed C01-h)
NON_NORMAL = ['e\u0301', '\u0301', '\u212b', '\u037e', '\u1100\u1161', '\ufb01', '\u00b5', '\u2126']
NON_ASCII_EXOTIC = [x for x in NON_NORMAL if ord(x[0]) > 127] + [' ', '\xa0', '\x85', '　', '﻿']
HAZARD = ['"', '\\', ';', ' ', '\t', '#', '*', ':', '{', '}', ',', '@', '~', '(', ')', '\x0c', '\x0b', '\x1c', '\x1d', '\x1e', '\x85',
          ' ', ' ', 'é', '中', '\U0001F600', "'", '^', '!', '-', '0', 'a', 'Z'] + NON_NORMAL
FLAGS = '*!&#?%PSTCURM'
RESERVED_CUR = {'TRUE', 'FALSE', 'NULL'}


class Cfg:
    def __init__(self, **kw: Any) -> None:
        self.max_dirs = 10
        self.max_body = 5
        self.exotic = 0.08        # unusual-but-legal constructs (non-ASCII accounts, '/'-currencies, empty list slots, ...)
        self.crlf = 0.12          # probability that a given line end is \r\n or \r\r\n
        self.comments = 0.25      # density of block comments
        self.inline = 0.2         # density of inline comments
        self.blank = 0.35         # density of blank / whitespace-only lines between directives
        self.ws_noise = 0.2       # probability of a non-single-space gap
        self.hazard_text = 0.15   # probability that strings / comments draw from the hazard alphabet
        self.no_final_newline = 0.3
        self.break_rules = 0.0    # probability of deliberately breaking a placement rule (expected discards)
        self.unicode_breaks_in_comments = True
        self.leading_comma = True
        self.dup_comments = 0.0      # probability that a comment line is drawn from a tiny pool (identical comments)
        self.inline_breaks = 0.12    # inline single-model targets: a gap becomes a line break (+ indent / inline comment)
        self.outer_trivia = 0.04     # inline single-model targets: blanks / newline around the model
        self.__dict__.update(kw)


class G:
    def __init__(self, rnd: Any, cfg: Optional[Cfg] = None) -> None:
        self.r = rnd
        self.c = cfg or Cfg()

    # ------------------------------------------------------------------ primitives
    def p(self, prob: float) -> bool:
        return self.u() < prob

    def u(self) -> float:
        """uniform in [0, 1) - drawn as two small integers: Hypothesis' float draws and its integer draws over ranges above ~500 are biased towards small values"""
        return (self.r.randint(0, 99) * 100 + self.r.randint(0, 99)) / 10000

    def pick(self, seq: Any) -> Any:
        return seq[self.r.randint(0, len(seq) - 1)]

    def n(self, a: int, b: int) -> int:
        return self.r.randint(a, b)

    def few(self) -> int:
        """0,1,2,3 with decreasing probability."""
        x = self.u()
        return 0 if x < 0.45 else 1 if x < 0.75 else 2 if x < 0.92 else 3

    def chars(self, alphabet: Any, lo: int, hi: int) -> str:
        return ''.join(self.pick(alphabet) for _ in range(self.n(lo, hi)))

    # ------------------------------------------------------------------ trivia
    def ws(self) -> Piece:
        if self.p(self.c.ws_noise):
            return ['WHITESPACE', self.chars(' \t', 1, 4)]
        return ['WHITESPACE', ' ']

    def gap(self) -> list[Piece]:
        """mandatory blank between two tokens"""
        return [self.ws()]

    def ogap(self) -> list[Piece]:
        """optional blank where the grammar does not need one"""
        if self.p(0.75):
            return [self.ws()]
        return []

    def nl(self) -> str:
        if self.p(self.c.crlf):
            return self.pick(['\r\n', '\r\n', '\r\r\n'])
        return '\n'

    def indent(self) -> Piece:
        if self.p(0.6):
            return ['INDENT', '  ' if self.p(0.5) else '    ']
        return ['INDENT', self.chars(' \t', 1, 6)]

    def comment_text(self) -> str:
        """text of one comment line after ';' (no \\r, \\n)"""
        if self.c.dup_comments and self.p(self.c.dup_comments):
            return self.pick([' ----', '', ' x', ' ----'])   # repeated identical comments (separator lines)
        if self.p(self.c.hazard_text):
            alphabet = [h for h in HAZARD if self.c.unicode_breaks_in_comments or h not in '\x0c\x0b\x1c\x1d\x1e\x85  ']
            return self.chars(alphabet, 0, 6)
        if self.p(0.15):
            return ''
        lead = '' if self.p(0.25) else ' '
        return lead + self.chars(LOW + ' ', 1, 8)

    def inline_comment(self) -> Piece:
        return ['INLINE_COMMENT', ';' + self.comment_text()]

    def comment_block(self, indented: bool, max_lines: int = 3) -> Piece:
        """One BLOCK_COMMENT token of 1..max_lines lines of the same indentation class."""
        lines = []
        k = 1 if self.p(0.6) else self.n(2, max_lines)
        fixed = self.chars(' \t', 1, 5) if indented else ''
        for _ in range(k):
            ind = (fixed if self.p(0.8) else self.chars(' \t', 1, 5)) if indented else ''
            lines.append(ind + ';' + self.comment_text())
        text = lines[0]
        for line in lines[1:]:
            text += self.nl() + line
        return ['BLOCK_COMMENT', text]

    # ------------------------------------------------------------------ terminals
    def date(self) -> Piece:
        if self.p(0.8):
            d = datetime.date(self.n(1990, 2030), self.n(1, 12), self.n(1, 28))
        else:
            d = datetime.date.fromordinal(self.n(1, datetime.date.max.toordinal()))
        s1 = self.pick('-/') if self.p(0.15) else '-'
        s2 = self.pick('-/') if self.p(0.15) else s1
        y = '%04d' % d.year
        if self.p(0.03):
            y = '0' + y
        if self.p(0.85):
            m, dd = '%02d' % d.month, '%02d' % d.day
        else:
            m, dd = str(d.month), str(d.day)
        return ['DATE', f'{y}{s1}{m}{s2}{dd}']

    def _acc_seg(self, first_alphabet: str) -> str:
        body = UP + LOW + DIG + '-'
        if self.p(self.c.exotic):
            pool = NON_ASCII + (NON_ASCII_EXOTIC if self.p(0.3) else [])
            first = self.pick(pool) if self.p(0.5) else self.pick(first_alphabet)
            rest = ''.join(self.pick(pool) if self.p(0.3) else self.pick(body) for _ in range(self.n(0, 5)))
            return first + rest
        return self.pick(first_alphabet) + self.chars(LOW if self.p(0.8) else body, 0, 6)

    def account(self) -> Piece:
        if self.p(0.04):
            # account types that begin like a keyword of another terminal (BOOL, NULL): still accounts
            root = self.pick(['TRUE', 'FALSE', 'NULL', 'TRUEhood', 'NULLé', 'FALSE-X'])
        elif self.p(0.6):
            root = self.pick(['Assets', 'Liabilities', 'Equity', 'Income', 'Expenses'])
        else:
            root = self._acc_seg(UP)
        segs = [self._acc_seg(UP + DIG) for _ in range(1 if self.p(0.6) else self.n(1, 4))]
        return ['ACCOUNT', ':'.join([root, *segs])]

    def currency_text(self) -> str:
        for _ in range(20):
            if self.p(0.04):
                # currencies that begin like a keyword of another terminal (BOOL, NULL): still currencies
                s = self.pick(['TRUEX', 'FALSEY', 'NULLS', 'TRUE1', 'NULL.A', 'FALSE-X', 'TRUER', 'NULLABLE'])
            elif self.p(0.7):
                s = self.pick(['USD', 'EUR', 'GBP', 'CAD', 'JPY', 'BTC', 'VTI', 'AAPL', 'X1'])
            elif self.p(self.c.exotic):
                body = UP + DIG + "'._-"
                s = '/' + self.chars(body, 0, 3) + self.pick(UP)
                if self.p(0.5):
                    s += self.chars(body, 0, 3) + self.pick(UP + DIG)
            else:
                body = UP + DIG + "'._-" if self.p(0.3) else UP
                s = self.pick(UP) + self.chars(body, 0, 5) + self.pick(UP + DIG)
            if s not in RESERVED_CUR:
                return s
        return 'USD'

    def currency(self) -> Piece:
        return ['CURRENCY', self.currency_text()]

    def number_text(self) -> str:
        x = self.u()
        if x < 0.5:
            s = str(self.n(0, 9999))
        elif x < 0.6:
            s = str(self.n(1, 999)) + ''.join(',%03d' % self.n(0, 999) for _ in range(self.n(1, 3)))
        elif x < 0.7:
            s = self.chars(DIG, 1, 12)
        elif x < 0.73:
            # more significant digits than the decimal context keeps (28): a literal is exact, only arithmetic rounds
            s = self.chars('123456789', 1, 1) + self.chars(DIG, 18, 33)
        else:
            s = str(self.n(0, 99999))
        y = self.u()
        if y < 0.45:
            s += '.' + self.chars(DIG, 1, 4 if self.p(0.9) else 10)
        elif y < 0.5:
            s += '.'
        return s

    def number(self) -> Piece:
        return ['NUMBER', self.number_text()]

    def string_text(self) -> str:
        if self.p(self.c.hazard_text):
            out = []
            for _ in range(self.n(0, 6)):
                ch = self.pick(HAZARD + ['\n', '\r\n', '\r', '\\n', '\\t', '\\"', '\\\\', '\\x'])
                if ch == '"':
                    ch = '\\"'
                elif ch == '\\':
                    ch = '\\' + self.pick(['\\', '"', 'n', 'q', ' ', 'é'])
                out.append(ch)
            return '"' + ''.join(out) + '"'
        if self.p(0.1):
            return '""'
        return '"' + self.chars(LOW + UP + ' ', 1, 10) + '"'

    def string(self) -> Piece:
        return ['ESCAPED_STRING', self.string_text()]

    def tag(self) -> Piece:
        return ['TAG', '#' + self.chars(LOW + UP + DIG + '-_/.', 1, 6)]

    def link(self) -> Piece:
        return ['LINK', '^' + self.chars(LOW + UP + DIG + '-_/.', 1, 6)]

    def meta_key(self) -> Piece:
        if self.p(0.7):
            return ['META_KEY', self.pick(['foo', 'bar', 'baz', 'note', 'time', 'ref-id', 'k_1']) + ':']
        return ['META_KEY', self.pick(LOW) + self.chars(LOW + UP + DIG + '-_', 1, 6) + ':']

    # ------------------------------------------------------------------ number expressions
    def _tight_ok(self, left: list[Piece]) -> bool:
        """A binary '-' or '/' may only touch its left operand when that cannot start a DATE-shaped run."""
        if not left:
            return True
        rule, text = left[-1]
        if rule == 'NUMBER' and len(text) >= 4 and text.isdigit():
            return False
        return True

    def _op_gap(self, left: list[Piece], op: str) -> list[Piece]:
        if self.p(0.2) and (op not in '-/' or self._tight_ok(left)):
            return []
        return [self.ws()]

    def atom(self, depth: int) -> list[Piece]:
        x = self.u()
        if depth <= 0 or x < 0.6:
            return [self.number()]
        if x < 0.8:
            return [['LEFT_PAREN', '('], *self.ogap_small(), *self.add_expr(depth - 1), *self.ogap_small(), ['RIGHT_PAREN', ')']]
        return [['UNARY_OP', self.pick('+-')], *self.ogap_small(), *self.atom(depth - 1)]

    def ogap_small(self) -> list[Piece]:
        return [self.ws()] if self.p(0.25) else []

    def mul_expr(self, depth: int) -> list[Piece]:
        out = self.atom(depth)
        while depth > 0 and self.p(0.25):
            op = self.pick('*/')
            g1 = self._op_gap(out, op)
            g2 = [self.ws()] if self.p(0.75) else []
            right = self.atom(depth - 1)
            if op == '/' and len(right) == 1 and right[0][0] == 'NUMBER' and not right[0][1].strip('0.,'):
                right = [['NUMBER', '1' + right[0][1]]]   # no literal division by zero
            out = [*out, *g1, ['MUL_OP', op], *g2, *right]
        return out

    def add_expr(self, depth: int) -> list[Piece]:
        out = self.mul_expr(depth)
        while depth > 0 and self.p(0.25):
            op = self.pick('+-')
            g1 = self._op_gap(out, op)
            g2 = [self.ws()] if self.p(0.75) else []
            out = [*out, *g1, ['ADD_OP', op], *g2, *self.mul_expr(depth - 1)]
        return out

    def number_expr(self, depth: Optional[int] = None) -> list[Piece]:
        if depth is None:
            depth = 0 if self.p(0.6) else self.n(1, 3)
        return self.add_expr(depth)

    def signed_simple(self) -> list[Piece]:
        if self.p(0.3):
            return [['UNARY_OP', '-'], self.number()]
        return self.number_expr()

    def amount(self) -> list[Piece]:
        return [*self.number_expr(), *self.gap_or_tight_cur(), self.currency()]

    def gap_or_tight_cur(self) -> list[Piece]:
        return [self.ws()]

    # ------------------------------------------------------------------ inline models
    def tolerance(self) -> list[Piece]:
        return [['TILDE', '~'], *self.ogap(), *self.number_expr()]

    def partial_amount(self) -> list[Piece]:
        out: list[Piece] = []
        if self.p(0.8):
            out += [*self.gap(), *self.number_expr()]
        if self.p(0.8):
            out += [*self.gap(), self.currency()]
        return out

    def price_annotation(self) -> list[Piece]:
        return [['ATAT', '@@'] if self.p(0.3) else ['AT', '@'], *self.partial_amount()]

    def compound_amount(self) -> list[Piece]:
        out: list[Piece] = []
        if self.p(0.7):
            out += [*self.number_expr(), *self.ogap()]
        out.append(['HASH', '#'])
        if self.p(0.7):
            out += [*self.ogap(), *self.number_expr()]
        out += [*self.gap(), self.currency()]
        return out

    def cost_component(self) -> list[Piece]:
        x = self.u()
        if x < 0.3:
            return self.amount()
        if x < 0.42:
            return self.number_expr()
        if x < 0.52:
            return [self.currency()]
        if x < 0.67:
            return [self.date()]
        if x < 0.79:
            return [self.string()]
        if x < 0.87:
            return [['ASTERISK', '*']]
        return self.compound_amount()

    def cost_spec(self) -> list[Piece]:
        total = self.p(0.3)
        k = self.pick([0, 1, 1, 1, 2, 2, 3])
        inner: list[Piece] = []
        if k and self.c.leading_comma and self.p(self.c.exotic * 0.5):
            inner += [['_COMMA', ','], *self.ogap()]
        for i in range(k):
            if i:
                after = self.gap() if inner[-1][0] == 'NUMBER' else self.ogap()
                inner += [*self.ogap_small(), ['_COMMA', ','], *after]
            inner += self.cost_component()
        pad_l = self.ogap_small()
        pad_r = self.ogap_small() if inner or not pad_l else []
        if total:
            return [['DBL_LEFT_BRACE', '{{'], *pad_l, *inner, *pad_r, ['DBL_RIGHT_BRACE', '}}']]
        return [['LEFT_BRACE', '{'], *pad_l, *inner, *pad_r, ['RIGHT_BRACE', '}']]

    def meta_value(self) -> list[Piece]:
        x = self.n(0, 9)
        if x == 0:
            return [self.string()]
        if x == 1:
            return [self.account()]
        if x == 2:
            return [self.date()]
        if x == 3:
            return [self.currency()]
        if x == 4:
            return [self.tag()]
        if x == 5:
            return [['BOOL', self.pick(['TRUE', 'FALSE'])]]
        if x == 6:
            return [['NULL', 'NULL']]
        if x == 7:
            return self.number_expr()
        if x == 8:
            return self.amount()
        return [self.string()]

    def custom_values(self) -> list[Piece]:
        out: list[Piece] = []
        prev_numberish = False
        for _ in range(self.pick([0, 1, 1, 2, 3, 4])):
            x = self.n(0, 5)
            if x == 0:
                v = [self.string()]
            elif x == 1:
                v = [self.date()]
            elif x == 2:
                v = [['BOOL', self.pick(['TRUE', 'FALSE'])]]
            elif x in (3, 4):
                num = self.number_expr()
                if prev_numberish and num[0][0] == 'UNARY_OP':
                    num = [['LEFT_PAREN', '('], *num, ['RIGHT_PAREN', ')']]
                v = [*num, self.ws(), self.currency()] if x == 3 else num
            else:
                v = [self.account()]
            out += [*self.gap(), *v]
            prev_numberish = x == 4
        return out

    # ------------------------------------------------------------------ lines
    def eol_tail(self) -> list[Piece]:
        """optional trailing blanks and inline comment before the line end"""
        out: list[Piece] = []
        if self.p(self.c.inline):
            out += [*self.ogap(), self.inline_comment()]
        elif self.p(0.05):
            out.append(self.ws())
        return out

    def meta_item_line(self, ind: Optional[Piece] = None) -> list[Piece]:
        out = [ind or self.indent(), self.meta_key()]
        if self.p(0.85):
            out += [*self.gap(), *self.meta_value()]
        out += self.eol_tail()
        return out

    def posting_line(self, ind: Optional[Piece] = None) -> list[Piece]:
        out = [ind or self.indent()]
        if self.p(0.2):
            out += [['POSTING_FLAG', self.pick(FLAGS)], *self.gap()]
        out.append(self.account())
        has_num = self.p(0.8)
        if has_num:
            out += [*self.gap(), *self.number_expr()]
        has_cur = self.p(0.85) if has_num else self.p(0.1)
        if has_cur:
            out += [*self.gap(), self.currency()]
        if self.p(0.3):
            out += [*self.gap(), *self.cost_spec()]
        if self.p(0.25):
            out += [*self.gap(), *self.price_annotation()]
        out += self.eol_tail()
        return out

    HEADERS = ['option', 'include', 'plugin', 'pushtag', 'poptag', 'pushmeta', 'popmeta', 'balance', 'close', 'commodity',
               'pad', 'event', 'query', 'price', 'note', 'document', 'open', 'custom', 'transaction', 'ignored']
    ENTRY_KINDS = {'balance', 'close', 'commodity', 'pad', 'event', 'query', 'price', 'note', 'document', 'open', 'custom',
                   'transaction'}

    def tags_links(self) -> list[Piece]:
        out: list[Piece] = []
        for _ in range(self.few()):
            out += [*self.gap(), self.tag() if self.p(0.5) else self.link()]
        return out

    def header(self, kind: str) -> list[Piece]:
        g, s = self.gap, self.string
        lab = lambda: [kind.upper(), kind]  # noqa: E731
        if kind == 'option':
            out = [lab(), *g(), s(), *g(), s()]
        elif kind == 'include':
            out = [lab(), *g(), s()]
        elif kind == 'plugin':
            out = [lab(), *g(), s()] + ([*g(), s()] if self.p(0.5) else [])
        elif kind in ('pushtag', 'poptag'):
            out = [lab(), *g(), self.tag()]
        elif kind == 'pushmeta':
            out = [lab(), *g(), self.meta_key()] + ([*g(), *self.meta_value()] if self.p(0.8) else [])
        elif kind == 'popmeta':
            out = [lab(), *g(), self.meta_key()]
        elif kind == 'balance':
            out = [self.date(), *g(), lab(), *g(), self.account(), *g(), *self.number_expr()]
            if self.p(0.3):
                out += [*g(), *self.tolerance()]
            out += [*g(), self.currency()]
        elif kind == 'close':
            out = [self.date(), *g(), lab(), *g(), self.account()]
        elif kind == 'commodity':
            out = [self.date(), *g(), lab(), *g(), self.currency()]
        elif kind == 'pad':
            out = [self.date(), *g(), lab(), *g(), self.account(), *g(), self.account()]
        elif kind in ('event', 'query'):
            out = [self.date(), *g(), lab(), *g(), s(), *g(), s()]
        elif kind == 'price':
            out = [self.date(), *g(), lab(), *g(), self.currency(), *g(), *self.amount()]
        elif kind in ('note', 'document'):
            out = [self.date(), *g(), lab(), *g(), self.account(), *g(), s(), *self.tags_links()]
        elif kind == 'open':
            out = [self.date(), *g(), lab(), *g(), self.account()]
            k = self.few()
            if k and self.c.leading_comma and self.p(self.c.exotic * 0.5):
                out += [*g(), ['_COMMA', ',']]
                first_gap = self.ogap()
            else:
                first_gap = g()
            for i in range(k):
                if i:
                    out += [*self.ogap_small(), ['_COMMA', ','], *self.ogap()]
                else:
                    out += first_gap
                out.append(self.currency())
            if self.p(0.25):
                out += [*g(), ['ESCAPED_STRING', self.pick(['"STRICT"', '"NONE"', '"FIFO"'])]]
        elif kind == 'custom':
            out = [self.date(), *g(), lab(), *g(), s(), *self.custom_values()]
        elif kind == 'transaction':
            flag = self.pick(['*', '*', '!', 'txn', 'txn', self.pick(FLAGS)])
            out = [self.date(), *g(), ['TRANSACTION_FLAG', flag]]
            for _ in range(self.pick([0, 1, 1, 2, 2])):
                out += [*g(), s()]
            out += self.tags_links()
        elif kind == 'ignored':
            first = self.pick('*:#' + FLAGS)
            return [['IGNORED', first + self.chars(LOW + ' *#;"', 0, 10)]]
        else:
            raise ValueError(kind)
        out += self.eol_tail()
        return out

    # ------------------------------------------------------------------ directives with bodies
    def directive(self, kind: Optional[str] = None) -> dict:
        """Returns {'kind', 'lines': [ [pieces...] ... ]}; every line is a list of pieces without its line end."""
        kind = kind or self.pick(self.HEADERS if self.p(0.5) else ['transaction', 'open', 'balance', 'note', 'custom', 'price', 'close'])
        lines: list[list[Piece]] = [self.header(kind)]
        if kind not in self.ENTRY_KINDS:
            return {'kind': kind, 'lines': lines}
        body: list[list[Piece]] = []
        if self.p(self.c.comments * 0.3):
            lines.append([self.comment_block(False)])  # unindented comment directly after the header (rule 3)
        shared = self.indent() if self.p(0.7) else None
        nmeta = self.few() if self.p(0.6) else 0
        for _ in range(nmeta):
            if self.p(self.c.comments * 0.5):
                body.append([self.comment_block(True)])
            body.append(self.meta_item_line(list(shared) if shared and self.p(0.9) else None))
        if kind == 'transaction':
            nposts = self.pick([0, 1, 2, 2, 2, 3, 4]) if self.p(0.85) else 0
            for _ in range(nposts):
                if self.p(self.c.comments * 0.5):
                    body.append([self.comment_block(True)])
                pind = list(shared) if shared and self.p(0.9) else self.indent()
                body.append(self.posting_line(pind))
                for _ in range(self.few() if self.p(0.3) else 0):
                    if self.p(self.c.comments * 0.4):
                        body.append([self.comment_block(True)])
                    mind = ['INDENT', pind[1] + ('  ' if self.p(0.7) else self.chars(' \t', 0, 3))] if self.p(0.8) else self.indent()
                    body.append(self.meta_item_line(mind))
        if self.p(self.c.comments * 0.5):
            body.append([self.comment_block(True)])  # comment directly before the dedent
        if body and self.p(self.c.break_rules):
            body.insert(self.n(0, len(body)), [])  # blank line inside a body: expected discard
        if not body and len(lines) > 1 and self.p(0.5):
            pass
        lines += body
        return {'kind': kind, 'lines': lines}

    def trivia(self) -> list[list[Piece]]:
        """lines between directives: blank, whitespace-only, comment blocks of both classes"""
        out: list[list[Piece]] = []
        x = self.u()
        k = 0 if x > self.c.blank + self.c.comments else 1 if x > 0.25 else self.n(1, 3)
        for _ in range(k):
            y = self.u()
            if y < self.c.comments:
                out.append([self.comment_block(self.p(0.3))])
            elif y < self.c.comments + 0.12:
                out.append([['WHITESPACE', self.chars(' \t', 1, 4)]])
            else:
                out.append([])
        return out

    def document(self) -> list[list[Piece]]:
        """chunks; chunk = pieces of one directive (with its line ends) or of one run of trivia lines"""
        ndirs = self.pick([0, 1, 1, 2, 3, 4, 5, 6, self.c.max_dirs]) if self.p(0.8) else self.n(0, self.c.max_dirs)
        groups: list[list[list[Piece]]] = []
        t = self.trivia()
        if t:
            groups.append(t)
        for _ in range(ndirs):
            groups.append(self.directive()['lines'])
            t = self.trivia()
            if t:
                groups.append(t)
        chunks = [self.join_lines(g) for g in groups]
        chunks = [c for c in chunks if c]
        if chunks and self.p(self.c.no_final_newline):
            if chunks[-1][-1][0] == '_NEWLINE':
                last = chunks[-1].pop()
                tail = last[1][:-1]  # \r* prefix stays as ... nothing: a bare \r is not lexable; drop it with the \n
                del tail
                if not chunks[-1]:
                    chunks.pop()
        return merge_comments(chunks)

    def join_lines(self, lines: list[list[Piece]]) -> list[Piece]:
        out: list[Piece] = []
        for line in lines:
            out += line
            nl = self.nl()
            out.append(['_NEWLINE', nl])
        return out


def merge_comments(chunks: list[list[Piece]]) -> list[list[Piece]]:
    """Adjacent comment lines of one indentation class separated by exactly one line end are one BLOCK_COMMENT token.
    Works across chunk borders by concatenating into the earlier chunk."""
    flat: list[tuple[int, Piece]] = [(ci, p) for ci, c in enumerate(chunks) for p in c]
    out: list[tuple[int, Piece]] = []
    for ci, p in flat:
        if (p[0] == 'BLOCK_COMMENT' and len(out) >= 2 and out[-1][1][0] == '_NEWLINE' and out[-2][1][0] == 'BLOCK_COMMENT'
                and _is_indented(out[-2][1][1]) == _is_indented(p[1])):
            nlp = out.pop()
            prev_ci, prev = out.pop()
            out.append((prev_ci, ['BLOCK_COMMENT', prev[1] + nlp[1][1] + p[1]]))
        else:
            out.append((ci, [p[0], p[1]]))
    res: list[list[Piece]] = [[] for _ in chunks]
    for ci, p in out:
        res[ci].append(p)
    return [c for c in res if c]


def _is_indented(comment: str) -> bool:
    return comment[:1] in (' ', '\t')


def text_of(chunks: list[list[Piece]]) -> str:
    return ''.join(p[1] for c in chunks for p in c)


def pieces_of(chunks: list[list[Piece]]) -> list[Piece]:
    return [p for c in chunks for p in c if p[1] != '']


def build_doc(rnd: Any, cfg: Optional[Cfg] = None) -> list[list[Piece]]:
    return G(rnd, cfg).document()


# ---------------------------------------------------------------------- G2: single-model targets

def build_target(rnd: Any, target: str, cfg: Optional[Cfg] = None) -> list[list[Piece]]:
    """Text for a single parse target (rule name). No trailing newline."""
    g = G(rnd, cfg)
    if target == 'file':
        return g.document()
    if target in G.HEADERS or target == 'ignored_line':
        kind = 'ignored' if target == 'ignored_line' else target
        lines = []
        if g.p(g.c.comments):
            lines.append([g.comment_block(False)])
        lines += g.directive(kind)['lines']
        if g.p(g.c.comments) and kind not in G.ENTRY_KINDS:
            lines.append([g.comment_block(False)])
        chunk = g.join_lines(lines)
        chunk.pop()  # no trailing newline
        return merge_comments([chunk])
    if target == 'posting':
        pind = g.indent()
        lines = [g.posting_line(pind)]
        for _ in range(g.few()):
            lines.append(g.meta_item_line(['INDENT', pind[1] + '  ']))
        chunk = g.join_lines(lines)
        chunk.pop()
        return [chunk]
    if target == 'meta_item':
        return [g.meta_item_line()]
    if target in INLINE_TARGETS:
        pieces = _inline_pieces(g, target)
        pieces = inject_line_breaks(g, pieces)
        if g.p(g.c.outer_trivia):
            # trivia around an inline model (accepted by parse, see the C01 known finding)
            x = g.n(0, 2)
            if x == 0:
                pieces = [['INDENT', g.chars(' \t', 1, 3)], *pieces]
            elif x == 1:
                pieces = [*pieces, ['WHITESPACE', g.chars(' \t', 1, 3)]]
            else:
                pieces = [*pieces, ['_NEWLINE', g.nl()]]
        return [pieces]
    raise ValueError(target)


INLINE_TARGETS = ['number_expr', 'number_paren_expr', 'number_unary_expr', 'amount', 'tolerance', 'unit_price', 'total_price', 'compound_amount',
                  'cost_spec', 'unit_cost', 'total_cost']


def inject_line_breaks(g: G, pieces: list[Piece]) -> list[Piece]:
    """Inline models accept line breaks and indentation between their tokens when parsed on their own."""
    out: list[Piece] = []
    for i, p in enumerate(pieces):
        if p[0] == 'WHITESPACE' and 0 < i < len(pieces) - 1 and g.p(g.c.inline_breaks):
            if g.p(0.3):
                out.append(['WHITESPACE', g.chars(' \t', 1, 2)])
            out.append(['_NEWLINE', g.nl()])
            if g.p(0.2):
                out.append(['_NEWLINE', g.nl()])
            if g.p(0.6):
                out.append(['INDENT', g.chars(' \t', 1, 4)])
        else:
            out.append(p)
    return out


def _inline_pieces(g: G, target: str) -> list[Piece]:
    simple = {
        'number_expr': g.number_expr, 'number_add_expr': lambda: g.add_expr(g.n(0, 3)), 'number_mul_expr': lambda: g.mul_expr(g.n(0, 3)),
        'number_paren_expr': lambda: [['LEFT_PAREN', '('], *g.add_expr(g.n(0, 2)), ['RIGHT_PAREN', ')']],
        'number_unary_expr': lambda: [['UNARY_OP', g.pick('+-')], *g.ogap_small(), *g.atom(g.n(0, 2))],
        'amount': g.amount, 'tolerance': g.tolerance,
        'unit_price': lambda: [['AT', '@'], *g.partial_amount()],
        'total_price': lambda: [['ATAT', '@@'], *g.partial_amount()],
        'compound_amount': g.compound_amount,
        'cost_spec': g.cost_spec,
    }
    if target in simple:
        return simple[target]()
    for _ in range(50):
        c = g.cost_spec()
        if (c[0][0] == 'LEFT_BRACE') == (target == 'unit_cost'):
            return c
    return [['LEFT_BRACE', '{'], ['RIGHT_BRACE', '}']] if target == 'unit_cost' else [['DBL_LEFT_BRACE', '{{'], ['DBL_RIGHT_BRACE', '}}']]


TARGETS = ['file', 'number_unary_expr', 'number_paren_expr', 'number_expr', 'amount', 'meta_item',
           'tolerance', 'balance', 'close', 'commodity', 'compound_amount', 'unit_cost', 'total_cost', 'cost_spec', 'custom', 'document',
           'event', 'ignored_line', 'include', 'note', 'open', 'option', 'pad', 'plugin', 'popmeta', 'poptag', 'price', 'pushmeta',
           'pushtag', 'query', 'total_price', 'unit_price', 'posting', 'transaction']
