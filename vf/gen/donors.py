"""G4 donors and G3 values.

A donor descriptor is plain data: {"k": kind, "t": text}. `realise` turns it into a fresh detached node:
  token RULE            -> TOKEN_MODELS[RULE].from_raw_text(text)        (BLOCK_COMMENT_IND: an indented block comment)
  tree rule             -> Parser().parse(text, TREE_MODELS[rule])       (carries real-world trivia)
  'add_expr'            -> parse(text, NumberExpr).raw_number_add_expr   (spans its whole store)
  'directive'           -> parse(text, File).raw_directives[0] popped ... realised through its own rule, recorded in "r"
A value descriptor is {"vt": type tag, "v": payload}.
"""
from __future__ import annotations

import datetime
import decimal
from typing import Any, Optional

from autobean_refactor import models, parser as parser_lib

from vf.gen import ledger as L

_PARSER = None


def parser() -> Any:
    global _PARSER
    if _PARSER is None:
        _PARSER = parser_lib.Parser()
    return _PARSER


DIRECTIVE_RULES = [h if h != 'ignored' else 'ignored_line' for h in L.G.HEADERS]


def make(kind: str, g: L.G, indent: Optional[str] = None) -> dict:
    """Draws a donor descriptor of the given kind."""
    if kind == 'directive':
        kind = g.pick(DIRECTIVE_RULES)
    if kind in models.TREE_MODELS or kind == 'add_expr':
        rule = 'number_expr' if kind == 'add_expr' else kind
        if rule == 'posting':
            ind = ['INDENT', indent] if indent else g.indent()
            lines = [g.posting_line(ind)]
            for _ in range(g.few() if g.p(0.3) else 0):
                lines.append(g.meta_item_line(['INDENT', ind[1] + '  ']))
            chunk = g.join_lines(lines)
            chunk.pop()
            text = L.text_of([chunk])
        elif rule == 'meta_item':
            text = L.text_of([g.meta_item_line(['INDENT', indent] if indent else None)])
        else:
            import copy as _copy
            cfg = _copy.copy(g.c)
            cfg.inline_breaks = cfg.outer_trivia = 0.0  # donors go into documents: no line breaks inside inline models
            text = L.text_of(L.build_target(g.r, rule, cfg))
        return {'k': kind, 't': text}
    tok = {
        'DATE': g.date, 'ACCOUNT': g.account, 'CURRENCY': g.currency, 'NUMBER': g.number, 'ESCAPED_STRING': g.string,
        'TAG': g.tag, 'LINK': g.link, 'META_KEY': g.meta_key, 'INLINE_COMMENT': g.inline_comment,
        'BLOCK_COMMENT': lambda: g.comment_block(False),
        'BLOCK_COMMENT_IND': lambda: _indented_comment(g, indent),
        'INDENT': g.indent,
        'POSTING_FLAG': lambda: ['POSTING_FLAG', g.pick(L.FLAGS)],
        'TRANSACTION_FLAG': lambda: ['TRANSACTION_FLAG', g.pick(list(L.FLAGS) + ['txn'])],
        'BOOL': lambda: ['BOOL', g.pick(['TRUE', 'FALSE'])], 'NULL': lambda: ['NULL', 'NULL'],
        'ASTERISK': lambda: ['ASTERISK', '*'], 'UNARY_OP': lambda: ['UNARY_OP', g.pick('+-')],
        'IGNORED': lambda: ['IGNORED', g.pick('*:#' + L.FLAGS) + g.chars(L.LOW + ' ', 0, 8)],
    }
    if kind not in tok:
        raise KeyError(kind)
    return {'k': kind, 't': tok[kind]()[1]}


def _indented_comment(g: L.G, indent: Optional[str]) -> list:
    p = g.comment_block(True)
    if indent:
        # re-indent uniformly
        lines = p[1].split('\n')
        p = ['BLOCK_COMMENT', '\n'.join(indent + line.lstrip(' \t') for line in lines)]
    return p


def realise(desc: dict) -> Any:
    """Builds the node. Raises on an unusable descriptor (callers treat that as 'operation not applicable')."""
    kind, text = desc['k'], desc.get('t', '')
    if kind == 'ctor':
        from vf.props import c15   # constructed (from_value / from_children) rather than parsed donors
        return c15.realise(desc['spec'])
    if kind == 'add_expr':
        return parser().parse(text, models.NumberExpr).raw_number_add_expr
    if kind in models.TREE_MODELS:
        return parser().parse(text, models.TREE_MODELS[kind])
    rule = 'BLOCK_COMMENT' if kind == 'BLOCK_COMMENT_IND' else kind
    if 'first' in desc:
        # a token built with another text of its class and given its final text while it is still free (not in any store)
        tok = models.TOKEN_MODELS[rule].from_raw_text(desc['first'])
        tok.raw_text = text
        return tok
    return models.TOKEN_MODELS[rule].from_raw_text(text)


# --------------------------------------------------------------------------- values (G3 domains)

def value(domain: str, g: L.G) -> dict:
    """Draws an in-domain value descriptor for a value-level property."""
    if domain == 'str':
        return {'vt': 'str', 'v': string_value(g)}
    if domain == 'comment':
        return {'vt': 'str', 'v': comment_value(g)}
    if domain == 'inline_comment':
        return {'vt': 'str', 'v': inline_comment_value(g)}
    if domain == 'date':
        return {'vt': 'date', 'v': date_value(g).isoformat()}
    if domain == 'account':
        return {'vt': 'str', 'v': g.account()[1]}
    if domain == 'currency':
        return {'vt': 'str', 'v': g.currency_text()}
    if domain in ('decimal', 'decimal_nonneg_ok'):
        if g.p(0.06):
            return {'vt': 'int', 'v': g.n(0, 999)}   # a plain int, as in the documentation's own example (expr.value = 8)
        return {'vt': 'dec', 'v': str(decimal_value(g))}
    if domain == 'indent':
        return {'vt': 'str', 'v': g.chars(' \t', 1, 6)}
    if domain == 'posting_flag':
        return {'vt': 'str', 'v': g.pick(L.FLAGS)}
    if domain == 'meta_key':
        return {'vt': 'str', 'v': g.meta_key()[1][:-1]}
    if domain == 'tag':
        return {'vt': 'str', 'v': g.tag()[1][1:]}
    if domain == 'bool':
        return {'vt': 'bool', 'v': g.p(0.5)}
    if domain == 'meta_value':
        x = g.n(0, 7)
        if x == 0:
            return {'vt': 'str', 'v': string_value(g)}
        if x == 1:
            return {'vt': 'date', 'v': date_value(g).isoformat()}
        if x == 2:
            return {'vt': 'dec', 'v': str(decimal_value(g))}
        if x == 3:
            return {'vt': 'bool', 'v': g.p(0.5)}
        if x == 4:
            return {'vt': 'none', 'v': None}
        return {'vt': 'donor', 'v': make(g.pick(['ACCOUNT', 'CURRENCY', 'TAG', 'NULL', 'amount']), g)}
    if domain == 'custom_value':
        x = g.n(0, 5)
        if x == 0:
            return {'vt': 'str', 'v': string_value(g)}
        if x == 1:
            return {'vt': 'date', 'v': date_value(g).isoformat()}
        if x == 2:
            return {'vt': 'dec', 'v': str(decimal_value(g).copy_abs())}
        if x == 3:
            return {'vt': 'bool', 'v': g.p(0.5)}
        return {'vt': 'donor', 'v': make(g.pick(['ACCOUNT', 'amount']), g)}
    raise KeyError(domain)


def decode(v: dict) -> Any:
    vt = v['vt']
    if vt == 'none':
        return None
    if vt == 'str':
        return v['v']
    if vt == 'date':
        return datetime.date.fromisoformat(v['v'])
    if vt == 'dec':
        return decimal.Decimal(v['v'])
    if vt == 'int':
        return int(v['v'])
    if vt == 'bool':
        return bool(v['v'])
    if vt == 'donor':
        return realise(v['v'])
    raise KeyError(vt)


def string_value(g: L.G) -> str:
    if g.p(0.06):
        return g.pick(['copied to "C:\\"', '\\"', 'a\\\\', '\\\\', '"\\', 'x\\"y\\\\"', '\\n\\"'])
    if g.p(0.25):
        return ''.join(g.pick(L.HAZARD + ['\n', '\r', '\r\n', '\x08']) for _ in range(g.n(0, 6)))
    if g.p(0.1):
        return ''
    return g.chars(L.LOW + L.UP + ' ', 1, 10)


def comment_value(g: L.G) -> str:
    """BlockComment value domain: any str whose line breaks are \\r*\\n (no bare \\r)."""
    def line() -> str:
        if g.p(0.08):
            return g.pick([' ', '  ', '\t', ' \t'])   # a line of blanks only
        if g.p(0.25):
            return ''.join(g.pick([h for h in L.HAZARD]) for _ in range(g.n(0, 6)))
        if g.p(0.1):
            return ''
        return g.chars(L.LOW + ' ', 1, 8)
    out = line()
    for _ in range(g.few() if g.p(0.4) else 0):
        out += g.pick(['\n', '\n', '\r\n']) + line()
    return out


def inline_comment_value(g: L.G) -> str:
    """InlineComment value domain: no \\r, \\n; no leading space."""
    if g.p(0.25):
        s = ''.join(g.pick(L.HAZARD) for _ in range(g.n(0, 6)))
    elif g.p(0.1):
        s = ''
    else:
        s = g.chars(L.LOW + ' ', 1, 8)
    return s.lstrip(' ')


def date_value(g: L.G) -> datetime.date:
    if g.p(0.7):
        return datetime.date(g.n(1990, 2030), g.n(1, 12), g.n(1, 28))
    if g.p(0.3):
        return g.pick([datetime.date(1, 1, 1), datetime.date(999, 12, 31), datetime.date(9999, 12, 31), datetime.date(1000, 1, 1),
                       datetime.date(2000, 2, 29)])
    return datetime.date.fromordinal(g.n(1, datetime.date.max.toordinal()))


def decimal_value(g: L.G) -> decimal.Decimal:
    x = g.u()
    if x < 0.5:
        d = decimal.Decimal(g.n(0, 99999)) / (10 ** g.n(0, 4))
    elif x < 0.6:
        d = decimal.Decimal(g.n(0, 10 ** 12))
    elif x < 0.7:
        d = decimal.Decimal(g.n(1, 999)) / (10 ** g.n(5, 10))  # small: str() would use exponent notation
    elif x < 0.73:
        d = decimal.Decimal('0')
    elif x < 0.77:
        # more significant digits than the default decimal context keeps (28): exact values, no arithmetic on them
        d = decimal.Decimal(g.pick(['12345678901234567890.123456789012', '123456789012345678901234567890', '0.1234567890123456789012345678901',
                                    '1.00000000000000000000000000050', '99999999999999999999999999999.99']))
    else:
        d = decimal.Decimal(g.n(0, 9999)).scaleb(-g.n(0, 3))
    if g.p(0.3):
        d = d.copy_negate()   # exact (the unary minus operator would round to the context precision)
    return d
