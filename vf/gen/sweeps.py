"""Systematic sweeps (enumerations) shared by the edit properties.

list_sweep(): every list-bearing field x list length 0..3 x every MutableSequence operation shape (index class x number of
values 0..3), through the raw list and through its views. Donors come from a fixed-seed Random, so the enumeration is the
same on every run.
"""
from __future__ import annotations

import random
from typing import Any, Iterator

from vf.gen import donors as D, ledger as L, ops as OPS, schema as S

TAIL = '\n2000-02-02 close Assets:Z\n'
HEAD = 'option "a" "b"\n\n'


def _doc(body: str) -> list:
    return [[['X', HEAD + body + TAIL]]]


def _currencies(n: int) -> str:
    return '2000-01-01 open Assets:A' + (' ' + ', '.join(['USD', 'EUR', 'GBP'][:n]) if n else '') + ' "STRICT"'


def _meta_lines(n: int, ind: str = '  ') -> str:
    return ''.join(f'\n{ind}k{i}: {i}' for i in range(n))


FIELDS = [
    # class, mi, raw prop, views, text(n), item kind for donors
    ('Open', 0, 'raw_currencies', ['currencies'], _currencies),
    ('Note', 0, 'raw_tags_links', ['tags', 'links'], lambda n: '2000-01-01 note Assets:A "x"' + ''.join(' ' + t for t in ['#a', '^b', '#c'][:n]) + ' ; c'),
    ('Transaction', 0, 'raw_tags_links', ['tags', 'links'],
     lambda n: '2000-01-01 * "p" "n"' + ''.join(' ' + t for t in ['#a', '^b', '#c'][:n]) + '\n  Assets:A 1 USD'),
    ('Custom', 0, 'raw_values', ['values'], lambda n: '2000-01-01 custom "t"' + ''.join(' ' + t for t in ['"s"', 'TRUE', '1 USD'][:n])),
    ('UnitCost', 0, 'raw_components', [], lambda n: '2000-01-01 *\n  Assets:A 1 USD {' + ', '.join(['2 EUR', '2000-01-01', '"l"'][:n]) + '} @ 3 EUR'),
    ('TotalCost', 0, 'raw_components', [], lambda n: '2000-01-01 *\n  Assets:A 1 USD {{' + ', '.join(['2 EUR', '2000-01-01', '"l"'][:n]) + '}}'),
    ('Close', 0, 'raw_meta_with_comments', ['raw_meta', 'meta'], lambda n: '2000-01-01 close Assets:A ; c' + _meta_lines(n)),
    ('Posting', 0, 'raw_meta_with_comments', ['raw_meta', 'meta'],
     lambda n: '2000-01-01 *\n  Assets:A 1 USD' + _meta_lines(n, '    ') + '\n  Assets:B'),
    ('Transaction', 0, 'raw_meta_with_comments', ['raw_meta', 'meta'], lambda n: '2000-01-01 * "n"' + _meta_lines(n) + '\n  Assets:A 1 USD'),
    ('Transaction', 0, 'raw_postings_with_comments', ['raw_postings'],
     lambda n: '2000-01-01 * "n"\n  kk: 1' + ''.join(f'\n  Assets:P{i} {i} USD' for i in range(n))),
    ('File', 0, 'raw_directives_with_comments', ['raw_directives'], None),
]


def _file_doc(n: int) -> list:
    ds = ['2000-01-01 open Assets:A\n', '; standalone\n', '2000-01-03 close Assets:A\n  kk: 1\n'][:n]
    return [[['X', '\n'.join(ds)]]]


def _shapes(n: int) -> Iterator[dict]:
    idx = sorted({0, 1, n - 1, n, n + 1, -1, -n, -n - 1})
    for i in idx:
        yield {'op': 'insert', 'i': i, 'nd': 1}
        yield {'op': 'pop', 'i': i}
        yield {'op': 'del', 'i': i}
        yield {'op': 'set', 'i': i, 'nd': 1}
    yield {'op': 'append', 'nd': 1}
    yield {'op': 'pop_last'}
    yield {'op': 'clear'}
    yield {'op': 'remove', 'i': 0}
    yield {'op': 'remove', 'i': n - 1}
    for k in (0, 1, 2, 3):
        yield {'op': 'extend', 'nd': k}
        yield {'op': 'iadd', 'nd': k}
        yield {'op': 'iadd', 'nd': k, 'stmt': True}
    ends = sorted({0, 1, n - 1, n}) + [None]
    for i in ends:
        for j in ends:
            yield {'op': 'delslice', 'i': i, 'j': j, 'k': None}
            for k in (0, 1, 2, 3):
                yield {'op': 'setslice', 'i': i, 'j': j, 'k': None, 'nd': k}
    for step in (2, -1, -2):
        yield {'op': 'delslice', 'i': None, 'j': None, 'k': step}
        r = range(n)[::step]
        yield {'op': 'setslice', 'i': None, 'j': None, 'k': step, 'nd': len(r)}
        yield {'op': 'setslice', 'i': None, 'j': None, 'k': step, 'nd': len(r) + 1}


def list_sweep(include_views: bool = True) -> Iterator[dict]:
    rnd = random.Random(20261004)
    g = L.G(rnd, L.Cfg(exotic=0.0, hazard_text=0.05, crlf=0.0, ws_noise=0.0, comments=0.3))
    S.build()
    for cname, mi, rawprop, views, text in FIELDS:
        for n in range(0, 4):
            dirs = _file_doc(n) if text is None else _doc(text(n))
            props = [(rawprop, 'list')] + ([(v, 'view') for v in views] if include_views else [])
            for prop, fam in props:
                p = S.prop(cname, prop)
                size = n
                for sh in _shapes(size):
                    op: dict = {'f': fam, 'cls': cname, 'mi': mi, 'prop': prop, 'op': sh['op']}
                    for key in ('i', 'j', 'k', 'stmt'):
                        if key in sh:
                            op[key] = sh[key]
                    nd = sh.get('nd', 0)
                    if p.kind in ('sview', 'cview'):
                        op['vals'] = [D.value(p.domain, g) for _ in range(nd)]
                        if p.kind == 'cview':
                            op['vals'] = [v if v['vt'] != 'dec' else {'vt': 'dec', 'v': v['v'].lstrip('-')} for v in op['vals']]
                    else:
                        ind = '    ' if cname == 'Posting' else '  '
                        op['donors'] = [_donor(g, p, ind) for _ in range(nd)]
                    yield {'dirs': dirs, 'ops': [op], 'prime': n % 2 == 0, 'sweep': True}


def _donor(g: L.G, p: Any, ind: str) -> dict:
    kinds = list(p.donors or [])
    kind = g.pick(kinds)
    if kind in ('meta_item', 'posting', 'BLOCK_COMMENT_IND'):
        return D.make(kind, g, indent=ind)
    d = D.make(kind, g)
    if p.name == 'raw_values' and d['t'][:1] in '+-':
        d = D.make('ESCAPED_STRING', g)
    return d


def sweep_docs(n_docs: int = 500, seed: int = 4242) -> Iterator[tuple]:
    """Fixed-seed documents rich in the rarely drawn constructs; yields (generator, chunks, parsed root)."""
    from vf.props import common
    rnd = random.Random(seed)
    cfg = L.Cfg(max_dirs=5, exotic=0.03, hazard_text=0.03, comments=0.2, crlf=0.05)
    S.build()
    kinds_cycle = ['transaction', 'transaction', 'balance', 'open', 'note', 'custom', 'price', 'transaction', 'document', 'close', 'pad', 'event',
                   'query', 'commodity', 'option', 'plugin', 'pushmeta', 'include', 'pushtag', 'poptag', 'popmeta', 'ignored']
    for d in range(n_docs):
        g = L.G(rnd, cfg)
        groups = []
        for j in range(3):
            groups.append(g.directive(kinds_cycle[(d * 3 + j) % len(kinds_cycle)])['lines'])
            if g.p(0.3):
                groups.append([[]])
        chunks = L.merge_comments([c for c in (g.join_lines(x) for x in groups) if c])
        try:
            root = common.parse_file(L.text_of(chunks))
        except Exception:  # noqa: BLE001
            continue
        yield g, chunks, root


def slot_sweep(per_key: int = 3, n_docs: int = 500) -> Iterator[dict]:
    """Every optional / required / value-level property of every class, in each presence state of its slot (absent / present),
    `per_key` instances each, with every operation shape (set to None, set to a donor / value)."""
    import collections
    count: collections.Counter = collections.Counter()
    wanted = {'opt', 'copt', 'uopt', 'req', 'rval', 'oval'}
    for g, chunks, root in sweep_docs(n_docs):
        for m, p, cname, mi in OPS.candidates(root, wanted):
            try:
                rn = OPS.raw_name(p) if p.kind in ('rval', 'oval') else p.name
                present = getattr(m, rn or p.name) is not None
            except Exception:  # noqa: BLE001
                continue
            key = (cname, p.name, present)
            if count[key] >= per_key:
                continue
            count[key] += 1
            shapes = ['none', 'donor'] if p.kind in ('opt', 'copt', 'uopt') else ['value'] if p.kind in ('req', 'rval') else ['none', 'value']
            for shape in shapes:
                try:
                    op = OPS.gen_for(g, root, m, p, cname, mi, shape=shape)
                except Exception:  # noqa: BLE001
                    op = None
                if op is not None:
                    yield {'dirs': chunks, 'ops': [op], 'sweep': True}


def insert_then_edit(per_key: int = 2) -> Iterator[dict]:
    """Two-step histories: every way of putting a tree-valued node into a list (each list_sweep case whose operation inserts one - index, slice,
    extended slice, extend, +=, through the raw list or a node view - plus whole-field assignment), followed by one edit *through the inserted
    node*: each absent optional slot of it filled, each present one cleared, a value changed (at most `per_key` per (route, class, slot, presence)).
    What the first step leaves behind (store binding, cached views, first/last token) is exercised by the second."""
    import collections
    from vf.obs import core as O
    from vf.props import common
    from autobean_refactor.models import base
    rnd = random.Random(20261005)
    g = L.G(rnd, L.Cfg(exotic=0.0, hazard_text=0.02, crlf=0.0, ws_noise=0.0, comments=0.2))
    count: collections.Counter = collections.Counter()
    wanted = {'opt', 'copt', 'uopt', 'oval', 'rval', 'meta'}

    def firsts() -> Iterator[dict]:
        for case in list_sweep(include_views=True):
            op = case['ops'][0]
            if op.get('donors'):
                yield case
        for cname, mi, rawprop, views, text in FIELDS:
            if text is None:
                continue
            for n in (0, 2):
                yield {'dirs': _doc(text(n) + '\n' + text(3).replace('2000-01-01', '2000-01-05')), 'prime': n == 0, 'sweep': True,
                       'ops': [{'f': 'list', 'cls': cname, 'mi': 0, 'prop': rawprop, 'op': 'assign', 'src': {'cls': cname, 'mi': 1}}]}
    for case in firsts():
        op = case['ops'][0]
        try:
            root = common.parse_file(L.text_of(case['dirs']))
            a = OPS.resolve(root, op)
            a.run()
        except Exception:  # noqa: BLE001
            continue
        ins = [x for x in a.inserted if isinstance(x, base.RawTreeModel) and not isinstance(x, O.Repeated)]
        if not ins:
            continue
        route = f"{op['f']}:{op['op']}:{'step' if op.get('k') not in (None, 1) else ''}"
        inside = {id(m) for x in ins for m, _ in O.walk(x) if isinstance(m, base.RawTreeModel)}
        for m, p, cname, mi in OPS.candidates(root, wanted):
            if id(m) not in inside:
                continue
            try:
                rn = OPS.raw_name(p) if p.kind in ('rval', 'oval') else p.name
                present = p.kind == 'meta' or getattr(m, rn or p.name) is not None
            except Exception:  # noqa: BLE001
                continue
            key = (route, cname, p.name, present)
            if count[key] >= per_key:
                continue
            count[key] += 1
            shape = None if p.kind == 'meta' else ('none' if present and p.kind != 'rval' else 'donor' if p.kind in ('opt', 'copt', 'uopt') else 'value')
            try:
                op2 = OPS.gen_for(g, root, m, p, cname, mi, shape=shape)
            except Exception:  # noqa: BLE001
                op2 = None
            if op2 is not None:
                yield {**case, 'ops': [op, op2]}


def insert_then_space(per_key: int = 1) -> Iterator[dict]:
    """The first steps of insert_then_edit (every way of putting a tree node into a list), followed by spacing assignments on the inserted node
    and on the tree models inside it, both sides (at most `per_key` per (route, class, side)): a node that was linked in without being re-attached
    answers its spacing accessors from the store it came from (round 8, seed C17-h)."""
    import collections
    from vf.obs import core as O
    from vf.props import common
    from autobean_refactor.models import base
    count: collections.Counter = collections.Counter()

    def firsts() -> Iterator[dict]:
        for case in list_sweep(include_views=True):
            if case['ops'][0].get('donors'):
                yield case
        for cname, mi, rawprop, views, text in FIELDS:
            if text is None:
                continue
            yield {'dirs': _doc(text(2) + '\n' + text(3).replace('2000-01-01', '2000-01-05')), 'prime': False, 'sweep': True,
                   'ops': [{'f': 'list', 'cls': cname, 'mi': 0, 'prop': rawprop, 'op': 'assign', 'src': {'cls': cname, 'mi': 1}}]}
    for case in firsts():
        op = case['ops'][0]
        try:
            root = common.parse_file(L.text_of(case['dirs']))
            a = OPS.resolve(root, op)
            a.run()
        except Exception:  # noqa: BLE001
            continue
        ins = [x for x in a.inserted if isinstance(x, base.RawTreeModel) and not isinstance(x, O.Repeated)]
        if not ins:
            continue
        route = f"{op['f']}:{op['op']}:{'step' if op.get('k') not in (None, 1) else ''}"
        inside = {id(m) for x in ins for m, _ in O.walk(x) if isinstance(m, base.RawTreeModel) and not isinstance(m, O.Repeated)}
        for cn, ms in OPS.index_models(root).items():
            for i, m in enumerate(ms):
                if id(m) not in inside or not hasattr(type(m), 'spacing_before'):
                    continue
                for side, text in (('before', '   '), ('after', '  ')):
                    key = (route, cn, side)
                    if count[key] >= per_key:
                        continue
                    count[key] += 1
                    yield {**case, 'ops': [op, {'f': 'space', 'cls': cn, 'mi': i, 'side': side, 'text': text}]}
