"""G6 - edit programs: operation descriptors (plain data), their state-aware generation, and their resolution
into Actions against a live document.

op descriptor (dict), families:
  tok     {"f","cls": RULE, "ti", "kind": value|raw|indent, "v": value-desc | "t": text}
  opt     {"f","cls","mi","prop","donor": desc|None}                    optional / custom-optional / unordered raw slots
  req     {"f","cls","mi","prop","donor": desc}
  val     {"f","cls","mi","prop","v": value-desc}                       value-level properties
  list    {"f","cls","mi","prop","op","i","j","k","donors":[desc]}      raw repeated lists
  view    {"f","cls","mi","prop","op","i","j","k","donors":[desc] | "vals":[value-desc]}   filtered / string views
  map     {"f","cls","mi","prop","op","key","v"|"donor"}                meta mapping views
  space   {"f","cls","mi","side","text"}
  claim   {"f","cls","mi","op", ...}
  copyins {"f","src":{"cls","mi"},"cls","mi","prop","i"}
  popins  {"f","src":{"cls","mi","prop","i"},"cls","mi","prop","j"}
  arith   {"f","mi","op","operand": value-desc}

Models are addressed by (class name, ordinal among the models of that class in pre-order), ordinals reduced modulo the number
present, so every descriptor is meaningful in every document state and shrinks towards "first candidate".
"""
from __future__ import annotations

import copy
import decimal
from typing import Any, Callable, Optional

from autobean_refactor import models
from autobean_refactor.models import base
from autobean_refactor.models.block_comment import BlockComment

from vf.gen import donors as D
from vf.gen import ledger as L
from vf.gen import schema as S
from vf.obs import core as O

REFUSAL = (ValueError, IndexError, KeyError, TypeError)
INDENTED_OWNERS = ('Posting', 'MetaItem')


class NotApplicable(Exception):
    pass


class Action:
    def __init__(self, op: dict) -> None:
        self.op = op
        self.family = op['f']
        self.P: Any = None
        self.prop: str = op.get('prop', '')
        self.removed: list = []
        self.inserted: list = []
        self.changed: list = []
        self.structural = True
        self.syntax_ok = True
        self.group = False            # documented dependent group: one assignment may re-shape several children
        self.expect_exc: Optional[type] = None   # exception a reference list/dict would raise
        self.refusal_documented = False          # e.g. size-changing slice assignment through a filtered view
        self._run: Callable[[], Any] = lambda: None
        self._after: Optional[Callable[[], None]] = None
        self.shape = ''
        self.ref: dict = {}

    def run(self) -> Any:
        r = self._run()
        if self._after:
            self._after()
        return r

    def key(self) -> str:
        cls = type(self.P).__name__ if self.P is not None else '-'
        return f'{self.family}:{cls}.{self.prop}:{self.shape}'


# --------------------------------------------------------------------------- addressing

def index_models(root: Any) -> dict[str, list]:
    out: dict[str, list] = {}
    for m, _ in O.walk(root):
        if isinstance(m, base.RawTreeModel) and not isinstance(m, O.Repeated):
            out.setdefault(type(m).__name__, []).append(m)
    return out


def find_model(root: Any, cls: str, mi: int, idx: Optional[dict] = None) -> Any:
    ms = (idx or index_models(root)).get(cls)
    if not ms:
        raise NotApplicable(f'no {cls}')
    return ms[mi % len(ms)]


def tokens_of_class(root: Any, rule: str) -> list:
    return [t for t in O.store_tokens(root.token_store) if type(t).RULE == rule]


def parent_of(root: Any, model: Any) -> Any:
    order = O.Order(root.token_store)
    for m, _ in O.walk(root, order):
        if isinstance(m, base.RawTreeModel):
            for c in O.raw_children(m):
                if c is model:
                    return m
                if isinstance(c, O.Repeated) and any(i is model for i in c.items):
                    return m
    return None


def raw_name(p: S.Prop) -> Optional[str]:
    special = {'merge': 'raw_asterisk'}
    n = special.get(p.name, 'raw_' + p.name)
    return n if hasattr(p.cls, n) else None


# --------------------------------------------------------------------------- reference list semantics

def list_apply(cur: list, op: str, i: int, j: Any, k: Any, new: list) -> list:
    """Applies a MutableSequence operation to a copy of `cur` with Python list semantics (raises like a list)."""
    out = list(cur)
    if op == 'append':
        out.append(new[0])
    elif op == 'insert':
        out.insert(i, new[0])
    elif op == 'pop':
        out.pop(i)
    elif op == 'pop_last':
        out.pop()
    elif op == 'del':
        del out[i]
    elif op == 'set':
        out[i] = new[0]
    elif op == 'delslice':
        del out[slice(i, j, k)]
    elif op == 'setslice':
        out[slice(i, j, k)] = new
    elif op in ('extend', 'iadd'):
        out.extend(new)
    elif op == 'clear':
        out.clear()
    elif op == 'remove':
        if not out:
            raise NotApplicable('remove from an empty list')
        out.pop(next(n for n, x in enumerate(out) if x == out[i % len(out)]))
    elif op == 'discard':
        if out:
            v = out[i % len(out)]
            out = [x for x in out if not (x == v)]
    elif op == 'reverse':
        out.reverse()
    else:
        raise NotApplicable(op)
    return out


def wrapper_call(w: Any, op: str, i: int, j: Any, k: Any, new: list, cur: list) -> Any:
    if op == 'append':
        return w.append(new[0])
    if op == 'insert':
        return w.insert(i, new[0])
    if op == 'pop':
        return w.pop(i)
    if op == 'pop_last':
        return w.pop()
    if op == 'del':
        del w[i]
        return None
    if op == 'set':
        w[i] = new[0]
        return None
    if op == 'delslice':
        del w[slice(i, j, k)]
        return None
    if op == 'setslice':
        w[slice(i, j, k)] = new
        return None
    if op == 'extend':
        return w.extend(new)
    if op == 'iadd':
        w += new
        return None
    if op == 'clear':
        return w.clear()
    if op == 'remove':
        if not cur:
            raise NotApplicable('remove from an empty list')
        return w.remove(cur[i % len(cur)])
    if op == 'discard':
        return w.discard(cur[i % len(cur)]) if cur else None
    if op == 'reverse':
        return w.reverse()
    raise NotApplicable(op)


LIST_OPS = ['append', 'insert', 'pop', 'pop_last', 'del', 'set', 'delslice', 'setslice', 'extend', 'iadd', 'clear', 'remove']
NEEDS_DONORS = {'append': 1, 'insert': 1, 'set': 1}


def _ident_in(x: Any, xs: list) -> bool:
    return any(x is y for y in xs)


# --------------------------------------------------------------------------- resolution

def resolve(root: Any, op: dict, idx: Optional[dict] = None) -> Action:
    """Turns a descriptor into an Action against the current state of `root`. Raises NotApplicable."""
    f = op['f']
    a = Action(op)
    try:
        return _RESOLVERS[f](root, op, a, idx)
    except NotApplicable:
        raise
    except (KeyError, AttributeError, TypeError, IndexError) as e:
        # malformed descriptor (e.g. after minimisation) or a donor that no longer parses
        raise NotApplicable(f'{type(e).__name__}: {e}')
    except ArithmeticError as e:
        # the reference semantics read the view's current values, and one of them does not evaluate (x / (0)): no reference, no verdict
        raise NotApplicable(f'unevaluable value in the target view: {type(e).__name__}')


def _donor(desc: Optional[dict]) -> Any:
    if desc is None:
        return None
    try:
        return D.realise(desc)
    except Exception as e:  # noqa: BLE001 - a donor text the parser rejects makes the op inapplicable
        raise NotApplicable(f'donor: {e!r}')


def _r_tok(root: Any, op: dict, a: Action, idx: Any) -> Action:
    toks = tokens_of_class(root, op['cls'])
    if not toks:
        raise NotApplicable('no token')
    t = toks[op['ti'] % len(toks)]
    a.P, a.prop, a.changed, a.structural = t, op['kind'], [t], False
    a.shape = f"{op['cls']}:{op['kind']}"
    kind = op['kind']
    if kind == 'value':
        v = D.decode(op['v'])
        a.ref['value'] = v
        if op['cls'] == 'INDENT':
            a.syntax_ok = False  # an indent override
        a._run = lambda: setattr(t, 'value', v)
    elif kind == 'raw':
        a.syntax_ok = False
        a._run = lambda: setattr(t, 'raw_text', op['t'])
    elif kind == 'indent':
        a.syntax_ok = False
        a._run = lambda: setattr(t, 'indent', op['t'])
    else:
        raise NotApplicable(kind)
    return a


def _target(root: Any, op: dict, idx: Any) -> tuple[Any, S.Prop]:
    P = find_model(root, op['cls'], op['mi'], idx)
    return P, S.prop(P, op['prop'])


def _r_opt(root: Any, op: dict, a: Action, idx: Any) -> Action:
    P, p = _target(root, op, idx)
    cur = getattr(P, p.name)
    new = _donor(op.get('donor'))
    a.P = P
    a.group = p.kind in ('copt',) or (type(P).__name__ == 'CostSpec')
    if cur is not None and new is not cur:
        a.removed = [cur]
    if new is not None:
        a.inserted = [new]
    a.shape = ('none' if cur is None else 'node') + '->' + ('none' if new is None else 'node')
    if p.name in ('raw_string0', 'raw_string1', 'raw_string2'):
        a.syntax_ok = False
    if op.get('misfit'):
        a.syntax_ok = False
    a._run = lambda: setattr(P, p.name, new)
    return a


def _r_req(root: Any, op: dict, a: Action, idx: Any) -> Action:
    P, p = _target(root, op, idx)
    cur = getattr(P, p.name)
    new = _donor(op['donor'])
    a.P, a.removed, a.inserted = P, [cur], [new]
    a.shape = 'replace'
    if p.name == 'raw_indent' or op.get('misfit'):
        a.syntax_ok = p.name == 'raw_indent' and not op.get('misfit')
    a._run = lambda: setattr(P, p.name, new)
    return a


def _r_val(root: Any, op: dict, a: Action, idx: Any) -> Action:
    P, p = _target(root, op, idx)
    v = D.decode(op['v'])
    rn = raw_name(p)
    before = getattr(P, rn) if rn else None
    a.P = P
    a.group = type(P).__name__ == 'CostSpec' or p.name in ('payee', 'narration')
    a.ref['value'] = v
    a.ref['raw_name'] = rn
    a.shape = ('none' if before is None else 'node') + '->' + ('none' if v is None or v is False else 'value')
    if p.name in ('string0', 'string1', 'string2', 'indent'):
        a.syntax_ok = False

    def after() -> None:
        now = getattr(P, rn) if rn else None
        if before is not None and now is not before:
            a.removed = [before]
        if now is not None and now is not before:
            a.inserted = [now]
        if now is not None and now is before:
            a.changed = [now]
    # before the call we can only say: the old child may go away or be changed in place
    a.removed = []
    a.changed = [before] if before is not None else []
    a.ref['before'] = before
    a._run = lambda: setattr(P, p.name, v)
    a._after = after
    return a


def _list_common(root: Any, op: dict, a: Action, idx: Any) -> tuple[Any, S.Prop, Any, list, list]:
    P, p = _target(root, op, idx)
    w = getattr(P, p.name)
    cur = list(w)
    a.P = P
    return P, p, w, cur, []


def _r_list(root: Any, op: dict, a: Action, idx: Any) -> Action:
    P, p, w, cur, _ = _list_common(root, op, a, idx)
    name = op['op']
    if name == 'assign':
        # the whole field replaced by (a deep copy of) another model's field: model.raw_xs = copy.deepcopy(other.raw_xs)
        import copy
        src = find_model(root, op['src']['cls'], op['src']['mi'], idx)
        neww = copy.deepcopy(getattr(src, p.name))
        new = list(neww)
        a.shape = f'assign:{min(len(cur), 2)}->{min(len(new), 2)}'
        a.ref.update(cur=cur, new=new, wrapper=neww, raw_wrapper=neww, expected=new)
        # the list node itself is what is replaced: its zero-width placeholder goes with it
        a.removed, a.inserted = cur + [w.repeated.placeholder], new + [neww.repeated.placeholder]
        a._run = lambda: setattr(P, p.name, neww)
        return a
    new = [_donor(d) for d in op.get('donors', [])]
    i, j, k = op.get('i', 0), op.get('j'), op.get('k')
    a.shape = shape_of(name, i, j, k, len(cur), len(new))
    a.ref.update(cur=cur, new=new, wrapper=w, raw_wrapper=w)
    try:
        exp = list_apply(cur, name, i, j, k, new)
        a.ref['expected'] = exp
        a.removed = [x for x in cur if not _ident_in(x, exp)]
        a.inserted = [x for x in new if _ident_in(x, exp)]
    except (IndexError, ValueError) as e:
        a.expect_exc = type(e)
        a.ref['expected'] = cur
    if name == 'reverse':
        a.expect_exc = None
        a.refusal_documented = len(cur) > 1
    if op.get('misfit'):
        a.syntax_ok = False
    a._run = lambda: wrapper_call(w, name, i, j, k, new, cur)
    if name == 'iadd' and op.get('stmt'):
        a._run = lambda: setattr(P, p.name, getattr(P, p.name).__iadd__(new))   # model.raw_xs += [...] as the statement does it
    return a


def _r_view(root: Any, op: dict, a: Action, idx: Any) -> Action:
    P, p = _target(root, op, idx)
    w = getattr(P, p.name)
    raw = getattr(w, '_raw_wrapper', None)
    cur = list(w)
    a.P = P
    name = op['op']
    if 'vals' in op:
        new = [D.decode(v) for v in op['vals']]
        a.ref['values'] = True
    else:
        new = [_donor(d) for d in op.get('donors', [])]
    i, j, k = op.get('i', 0), op.get('j'), op.get('k')
    a.shape = shape_of(name, i, j, k, len(cur), len(new))
    rawcur = list(raw) if raw is not None else None
    a.ref.update(cur=cur, new=new, wrapper=w, raw_wrapper=raw, rawcur=rawcur)
    try:
        exp = list_apply(cur, name, i, j, k, new)
        a.ref['expected'] = exp
        if name == 'setslice' and len(exp) != len(cur):
            # documented: size-changing slice assignment through a filtered / string view is refused
            a.refusal_documented = True
            a.ref['expected'] = cur
        elif 'vals' not in op:
            a.removed = [x for x in cur if not _ident_in(x, exp)]
            a.inserted = [x for x in new if _ident_in(x, exp)]
    except (IndexError, ValueError) as e:
        a.expect_exc = type(e)
        a.ref['expected'] = cur

    def after() -> None:
        if raw is None or rawcur is None:
            return
        now = list(raw)
        a.ref['actual_removed'] = [x for x in rawcur if not _ident_in(x, now)]
        a.inserted = [x for x in now if not _ident_in(x, rawcur)]
    if 'vals' in op:
        a._after = after
        # which raw items the operation is entitled to touch, from list semantics on the items the view shows
        vis = [x for x in (rawcur or []) if view_visible(a.prop, x)]
        a.ref['visible_raw'] = vis
        if a.expect_exc is None and not a.refusal_documented and len(vis) == len(cur):
            pos = list(range(len(vis)))
            try:
                if name in ('remove', 'discard'):
                    if cur:
                        v0 = cur[i % len(cur)]
                        hit = [t for t in pos if cur[t] == v0]
                        gone = hit[:1] if name == 'remove' else hit
                    else:
                        gone = []
                    a.removed = [vis[t] for t in gone]
                elif name in ('set', 'setslice', 'reverse'):
                    sel = pos if name == 'reverse' else ([pos[i]] if name == 'set' else pos[slice(i, j, k)])
                    a.changed = [vis[t] for t in sel]
                else:
                    left = list_apply(pos, name, i, j, k, [-1] * len(new))
                    a.removed = [vis[t] for t in pos if t not in left]
            except (IndexError, ValueError, NotApplicable):
                pass
    if op.get('misfit'):
        a.syntax_ok = False
    a._run = lambda: wrapper_call(w, name, i, j, k, new, cur)
    if name == 'iadd' and op.get('stmt'):
        a._run = lambda: setattr(P, p.name, getattr(P, p.name).__iadd__(new))   # model.tags += [...] as the statement does it
    return a


VIEW_VISIBLE = {
    'raw_postings': lambda x: type(x).__name__ == 'Posting', 'raw_directives': lambda x: not isinstance(x, BlockComment),
    'raw_meta': lambda x: type(x).__name__ == 'MetaItem', 'meta': lambda x: type(x).__name__ == 'MetaItem',
    'tags': lambda x: type(x).__name__ == 'Tag', 'links': lambda x: type(x).__name__ == 'Link',
    'currencies': lambda x: type(x).__name__ == 'Currency', 'values': lambda x: True,
}


def view_visible(prop: str, x: Any) -> bool:
    f = VIEW_VISIBLE.get(prop)
    return True if f is None else bool(f(x))


def _r_map(root: Any, op: dict, a: Action, idx: Any) -> Action:
    P, p = _target(root, op, idx)
    w = getattr(P, p.name)
    raw = w._raw_wrapper
    rawcur = list(raw)
    a.P = P
    name, key = op['op'], op.get('key')
    items = [x for x in rawcur if type(x).__name__ == 'MetaItem']
    match = next((x for x in items if x.key == key), None)
    a.shape = f"{name}:{'hit' if match is not None else 'miss'}"
    a.ref.update(raw_wrapper=raw, rawcur=rawcur, wrapper=w, match=match, items=items, item_texts=[O.print_text(x) for x in items])
    is_raw = p.kind == 'rawmeta'
    if name == 'set':
        if is_raw:
            new = _donor(op['donor'])
            a.inserted = [new]
            if match is not None:
                a.removed = [match]
            a._run = lambda: w.__setitem__(key, new)
        else:
            v = D.decode(op['v'])
            a.ref['value'] = v
            if match is not None:
                a.changed = [match]
                a.structural = False
            a._run = lambda: w.__setitem__(key, v)

            def after() -> None:
                now = list(raw)
                a.inserted = [x for x in now if not _ident_in(x, rawcur)]
            a._after = after
    elif name in ('del', 'pop', 'pop_default'):
        if match is None and name != 'pop_default':
            a.expect_exc = KeyError
        if match is not None:
            a.removed = [match]
        if name == 'del':
            a._run = lambda: w.__delitem__(key)
        elif name == 'pop':
            a._run = lambda: w.pop(key)
        else:
            a._run = lambda: w.pop(key, None)
    elif name == 'setdefault':
        if is_raw:
            new = _donor(op['donor'])
            if match is None:
                a.inserted = [new]
            else:
                a.structural = False
            a._run = lambda: w.setdefault(key, new)
        else:
            v = D.decode(op['v'])
            if match is not None:
                a.structural = False
            a._run = lambda: w.setdefault(key, v)

            def after2() -> None:
                now = list(raw)
                a.inserted = [x for x in now if not _ident_in(x, rawcur)]
            a._after = after2
    elif name == 'popitem':
        # dict semantics: last in, first out
        a.shape = 'popitem:' + ('empty' if not items else 'nonempty')
        if not items:
            a.expect_exc = KeyError
        else:
            a.removed = [items[-1]]
            a.ref['match'] = items[-1]
        a._run = lambda: a.ref.__setitem__('returned', w.popitem())
    elif name == 'update':
        # mapping.update(other model's mapping of the same kind): for every key of the other, first-match assignment / append
        ms = idx.get(op['cls'], []) if isinstance(idx, dict) else index_models(root).get(op['cls'], [])
        others = [x for x in ms if x is not P]
        if not others or is_raw:
            raise NotApplicable('needs a second model; raw items of another model are attached')
        other = getattr(others[op.get('sel', 0) % len(others)], p.name)
        try:
            pairs = [(x.key, x.value) for x in other]
        except ArithmeticError:
            raise NotApplicable('unevaluable value')
        if any(isinstance(v, base.RawModel) for _, v in pairs):
            raise NotApplicable('values that are nodes of the other model are attached')
        a.shape = 'update:' + str(min(len(pairs), 2))
        a.ref['update_pairs'] = pairs
        a.structural = True
        a._run = lambda: w.update(other)

        def after3() -> None:
            now = list(raw)
            a.inserted = [x for x in now if not _ident_in(x, rawcur)]
            a.changed = [x for x in items if x.key in {k for k, _ in pairs}]
        a._after = after3
    else:
        raise NotApplicable(name)
    if op.get('misfit'):
        a.syntax_ok = False
    return a


def _r_space(root: Any, op: dict, a: Action, idx: Any) -> Action:
    if 'ti' in op:
        toks = O.store_tokens(root.token_store)
        if not toks:
            raise NotApplicable('empty')
        m = toks[op['ti'] % len(toks)]
    else:
        m = find_model(root, op['cls'], op['mi'], idx)
    if not hasattr(type(m), 'spacing_before') or isinstance(m, models.File):
        raise NotApplicable('no spacing accessors')
    a.P, a.structural, a.syntax_ok = m, False, False
    a.prop = 'spacing_' + op['side']
    a.shape = op['side']
    a._run = lambda: setattr(m, a.prop, op['text'])
    return a


def _r_claim(root: Any, op: dict, a: Action, idx: Any) -> Action:
    m = find_model(root, op['cls'], op['mi'], idx)
    name = op['op']
    a.P, a.structural, a.prop, a.shape = m, False, name, name
    if name == 'auto':
        a._run = m.auto_claim_comments
    elif name in ('claim_leading_comment', 'claim_trailing_comment'):
        if not hasattr(m, name):
            raise NotApplicable(name)
        a._run = lambda: getattr(m, name)(ignore_if_already_claimed=True)
    elif name in ('unclaim_leading_comment', 'unclaim_trailing_comment'):
        if not hasattr(m, name):
            raise NotApplicable(name)
        a._run = getattr(m, name)
    elif name in ('claim_interleaving_comments', 'unclaim_interleaving_comments'):
        w = getattr(m, op['prop'], None)
        if w is None or not hasattr(w, name):
            raise NotApplicable(name)
        a._run = getattr(w, name)
    else:
        raise NotApplicable(name)
    return a


def _compatible(model: Any, kinds: list) -> bool:
    rule = type(model).RULE
    if isinstance(model, BlockComment):
        return 'BLOCK_COMMENT' in kinds or 'BLOCK_COMMENT_IND' in kinds
    if rule in kinds:
        return True
    if 'directive' in kinds and rule in D.DIRECTIVE_RULES:
        return True
    return False


def _fits(node: Any, p: S.Prop) -> bool:
    """Does a moved/copied node carry indentation that fits the destination list? Every comment line inside a node that
    goes into an indented body must itself be indented (a node can own an unindented comment when attribution crossed
    the indentation class - see C14 - and such a node is an ill-indented donor for another body)."""
    if p.name in ('raw_meta_with_comments', 'raw_postings_with_comments', 'raw_meta', 'raw_postings', 'meta'):
        toks = [node] if isinstance(node, base.RawTokenModel) else node.tokens
        for t in toks:
            if isinstance(t, BlockComment) and any(line[:1] not in (' ', '\t') for line in t.raw_text.split('\n')):
                return False
    return True


def _r_copyins(root: Any, op: dict, a: Action, idx: Any) -> Action:
    src = find_model(root, op['src']['cls'], op['src']['mi'], idx)
    P, p = _target(root, op, idx)
    if not _compatible(src, p.donors or []):
        raise NotApplicable('incompatible')
    w = getattr(P, p.name)
    cur = list(w)
    node = copy.deepcopy(src)
    i = op.get('i', 0)
    a.P, a.inserted = P, [node]
    a.shape = 'copy-insert'
    a.syntax_ok = _fits(src, p)
    a.ref.update(cur=cur, new=[node], wrapper=w, raw_wrapper=w, expected=list_apply(cur, 'insert', i, None, None, [node]))
    a._run = lambda: w.insert(i, node)
    return a


def _r_popins(root: Any, op: dict, a: Action, idx: Any) -> Action:
    s = op['src']
    SP = find_model(root, s['cls'], s['mi'], idx)
    sw = getattr(SP, s['prop'])
    P, p = _target(root, op, idx)
    w = getattr(P, p.name)
    if len(sw) == 0:
        raise NotApplicable('empty source')
    si = s['i'] % len(sw)
    item = sw[si]
    if not _compatible(item, p.donors or []):
        raise NotApplicable('incompatible')
    a.P = P
    a.shape = 'pop-reinsert'
    a.syntax_ok = _fits(item, p)
    a.ref['two_parents'] = SP
    a.inserted = [item]

    def run() -> None:
        node = sw.pop(si)
        a.ref['popped'] = node
        w.insert(op.get('j', 0), node)
    a._run = run
    return a


ARITH_OPS = ['+=', '-=', '*=', '/=']


def holder_of(root: Any, e: Any) -> Optional[tuple]:
    """Where a node is held: ('attr', model, property name) or ('item', wrapper, index) - found through the public properties."""
    for ms in index_models(root).values():
        for m in ms:
            for p in S.props_of(m):
                try:
                    if p.kind in ('opt', 'req', 'copt', 'uopt') and getattr(m, p.name) is e:
                        return ('attr', m, p.name)
                    if p.kind in ('list', 'clist'):
                        w = getattr(m, p.name)
                        for i, x in enumerate(w):
                            if x is e:
                                return ('item', w, i)
                except Exception:  # noqa: BLE001
                    continue
    return None


def inplace_statement(holder: tuple, op: str, operand: Any) -> Any:
    """`holder.attr op= operand` / `wrapper[i] op= operand` exactly as the Python statement does it: read, in-place operator, store back."""
    import operator
    f = {'+=': operator.iadd, '-=': operator.isub, '*=': operator.imul, '/=': operator.itruediv}[op]
    if holder[0] == 'attr':
        _, m, name = holder
        r = f(getattr(m, name), operand)
        setattr(m, name, r)
    else:
        _, w, i = holder
        r = f(w[i], operand)
        w[i] = r
    return r


def _r_arith(root: Any, op: dict, a: Action, idx: Any) -> Action:
    e = find_model(root, 'NumberExpr', op['mi'], idx)
    v = op['operand']
    if v['vt'] == 'int':
        operand: Any = int(v['v'])
    elif v['vt'] == 'dec':
        operand = decimal.Decimal(v['v'])
    else:
        operand = _donor({'k': 'number_expr', 't': v['v']})
    try:
        if op['op'] == '/=' and (operand.value if hasattr(operand, 'value') else operand) == 0:
            raise NotApplicable('division by zero')
    except decimal.DecimalException:
        raise NotApplicable('operand does not evaluate')
    a.P, a.changed, a.structural, a.prop, a.shape = e, [e], False, op['op'], op['op'] + ':' + v['vt']
    a.ref['operand'] = operand

    holder = holder_of(root, e) if op.get('stmt') else None

    def run() -> None:
        x = e
        if holder is not None:
            a.ref['result'] = inplace_statement(holder, op['op'], operand)
            return
        if op['op'] == '+=':
            x += operand
        elif op['op'] == '-=':
            x -= operand
        elif op['op'] == '*=':
            x *= operand
        else:
            x /= operand
        a.ref['result'] = x
    a._run = run
    return a


def _r_read(root: Any, op: dict, a: Action, idx: Any) -> Action:
    """Read-only / attribution actions in the C04 encoding (used by the claim ping-pong walks)."""
    from vf.props import c04
    a.P, a.structural, a.prop, a.shape = None, False, str(op.get('op', op.get('what'))), str(op.get('op', op.get('what')))
    a.family = 'claim' if op.get('what') == 'claim' else 'read'

    def run() -> None:
        try:
            c04._act(root, index_models(root), op, set())
        except ValueError:
            pass
    a._run = run
    return a


_RESOLVERS = {'read': _r_read, 'tok': _r_tok, 'opt': _r_opt, 'req': _r_req, 'val': _r_val, 'list': _r_list, 'view': _r_view, 'map': _r_map,
              'space': _r_space, 'claim': _r_claim, 'copyins': _r_copyins, 'popins': _r_popins, 'arith': _r_arith}


def shape_of(name: str, i: Any, j: Any, k: Any, n: int, nnew: int) -> str:
    """Argument shape for bucketing: index class, emptiness and direction of a slice, step class - not the exact numbers."""
    def ic(x: Any) -> str:
        if x is None:
            return 'N'
        if x == 0:
            return '0'
        if x >= n:
            return '>=n'
        if x > 0:
            return '+'
        if x >= -n:
            return '-'
        return '<-n'
    size = '0' if n == 0 else '1' if n == 1 else 'm'
    v = '0' if nnew == 0 else '1' if nnew == 1 else 'm'
    if name in ('append', 'pop_last', 'extend', 'iadd', 'clear', 'reverse'):
        return f'{name}/n{size}/v{v}'
    if name in ('insert', 'pop', 'del', 'set', 'remove', 'discard'):
        return f'{name}[{ic(i)}]/n{size}'
    try:
        r = range(n)[slice(i, j, k)]
        rr = 'empty' if len(r) == 0 else 'nonempty'
        if len(r) == 0 and r.start > r.stop and r.step > 0:
            rr = 'empty-rev'
    except Exception:  # noqa: BLE001
        rr = 'bad'
    st = '1' if k in (None, 1) else ('+' if k > 0 else '-')
    return f'{name}[step{st}]{rr}/v{v}'


# --------------------------------------------------------------------------- state-aware generation

def gen_index(g: L.G, n: int) -> int:
    return g.pick([0, 0, n // 2, n - 1, -1, -1, -n, -n - 1, n, n + 1, g.n(-n - 2, n + 2)])


def gen_slice(g: L.G, n: int) -> tuple:
    def e() -> Any:
        return g.pick([None, None, 0, 1, n // 2, n - 1, n, n + 1, -1, -2, -n, -n - 1, g.n(-n - 2, n + 2)])
    k = g.pick([None, None, None, 1, 1, 2, -1, -2, 3])
    return e(), e(), k


def sibling_indent(P: Any, p: S.Prop) -> Optional[str]:
    """Indent that a new indented child of P's list should carry to fit."""
    try:
        w = getattr(P, p.name)
        raw = getattr(w, '_raw_wrapper', w)
        for x in raw:
            ind = getattr(x, 'indent', None)
            if isinstance(ind, str) and ind:
                return ind
        own = getattr(P, 'indent', None) if type(P).__name__ in INDENTED_OWNERS else None
        if isinstance(own, str):
            return own + '  '
    except Exception:  # noqa: BLE001
        pass
    return '    '


def donor_for(g: L.G, P: Any, p: S.Prop, misfit: bool = False) -> dict:
    kinds = list(p.donors or [])
    kind = g.pick(kinds)
    ind = None
    if not misfit and len(set(kinds)) == 1 and kind not in ('meta_item', 'posting', 'directive', 'BLOCK_COMMENT', 'BLOCK_COMMENT_IND') and g.p(0.12):
        # a fresh node that equals the child already in the slot (models compare by type and text): the slot must hold the new node afterwards
        try:
            cur = getattr(P, p.name, None)
            # (no line breaks inside a donor, as in D.make: an earlier spacing operation may have put one into the current child)
            if isinstance(cur, base.RawModel) and O.print_text(cur) and '\n' not in O.print_text(cur):
                return {'k': kind, 't': O.print_text(cur)}
        except Exception:  # noqa: BLE001
            pass
    if kind in ('meta_item', 'posting', 'BLOCK_COMMENT_IND'):
        ind = sibling_indent(P, p)
    if kind == 'BLOCK_COMMENT' and p.name in ('raw_leading_comment', 'raw_trailing_comment') and type(P).__name__ in INDENTED_OWNERS:
        kind, ind = 'BLOCK_COMMENT_IND', getattr(P, 'indent', '    ')
    if misfit:
        if kind == 'BLOCK_COMMENT_IND':
            kind = 'BLOCK_COMMENT'
        elif kind == 'BLOCK_COMMENT':
            kind, ind = 'BLOCK_COMMENT_IND', '  '
    if not misfit and g.p(0.2) and (kind in ('directive', 'posting', 'meta_item') or kind in D.DIRECTIVE_RULES):
        # a donor built with from_value / from_children instead of parsed from text
        try:
            from vf.props import c15
            rule = g.pick(D.DIRECTIVE_RULES) if kind == 'directive' else kind
            cname = models.TREE_MODELS[rule].__name__
            hows = [h for h in ('from_value', 'from_children') if hasattr(models.TREE_MODELS[rule], h)]
            spec = c15.plan(g, cname, g.pick(hows), depth=1, indent=ind if cname in c15.INDENTED else None)
            return {'k': 'ctor', 't': '', 'spec': spec}
        except Exception:  # noqa: BLE001
            pass
    d = D.make(kind, g, indent=ind)
    if kind in ('BLOCK_COMMENT', 'BLOCK_COMMENT_IND', 'TAG', 'LINK', 'CURRENCY', 'ESCAPED_STRING', 'ACCOUNT') and g.p(0.15):
        try:
            d['first'] = D.make(kind, g, indent=ind)['t']   # edited while free, then inserted
        except Exception:  # noqa: BLE001
            pass
    if p.name == 'raw_values' and d['t'][:1] in '+-':
        d['t'] = '(' + d['t'] + ')' if d['k'] == 'number_expr' else d['t']
        if d['k'] == 'amount' and d['t'][:1] in '+-':
            d = D.make('ESCAPED_STRING', g)
    return d


def candidates(root: Any, kinds: Optional[set] = None) -> list[tuple[Any, S.Prop, str, int]]:
    """All (model, prop, class name, ordinal) pairs present in the document."""
    out = []
    idx = index_models(root)
    for cname, ms in idx.items():
        for mi, m in enumerate(ms):
            for p in S.props_of(m):
                if kinds is None or p.kind in kinds:
                    out.append((m, p, cname, mi))
    return out


TOKEN_VALUE_CLASSES = ['ESCAPED_STRING', 'BLOCK_COMMENT', 'INLINE_COMMENT', 'DATE', 'NUMBER', 'ACCOUNT', 'CURRENCY', 'TAG', 'LINK',
                       'META_KEY', 'POSTING_FLAG', 'TRANSACTION_FLAG', 'BOOL', 'INDENT']


def token_value(g: L.G, rule: str) -> dict:
    if rule == 'ESCAPED_STRING':
        return {'vt': 'str', 'v': D.string_value(g)}
    if rule == 'BLOCK_COMMENT':
        return {'vt': 'str', 'v': D.comment_value(g)}
    if rule == 'INLINE_COMMENT':
        return {'vt': 'str', 'v': D.inline_comment_value(g)}
    if rule == 'DATE':
        return {'vt': 'date', 'v': D.date_value(g).isoformat()}
    if rule == 'NUMBER':
        return {'vt': 'dec', 'v': str(D.decimal_value(g).copy_abs())}
    if rule == 'ACCOUNT':
        return {'vt': 'str', 'v': g.account()[1]}
    if rule == 'CURRENCY':
        return {'vt': 'str', 'v': g.currency_text()}
    if rule in ('TAG', 'LINK'):
        return {'vt': 'str', 'v': g.tag()[1][1:]}
    if rule == 'META_KEY':
        return {'vt': 'str', 'v': g.meta_key()[1][:-1]}
    if rule in ('POSTING_FLAG', 'TRANSACTION_FLAG'):
        return {'vt': 'str', 'v': g.pick(L.FLAGS)}
    if rule == 'BOOL':
        return {'vt': 'bool', 'v': g.p(0.5)}
    if rule == 'INDENT':
        return {'vt': 'str', 'v': g.chars(' \t', 1, 6)}
    raise KeyError(rule)


def token_lexeme(g: L.G, rule: str) -> str:
    m = {'ESCAPED_STRING': g.string, 'BLOCK_COMMENT': lambda: g.comment_block(g.p(0.5)), 'INLINE_COMMENT': g.inline_comment,
         'DATE': g.date, 'NUMBER': g.number, 'ACCOUNT': g.account, 'CURRENCY': g.currency, 'TAG': g.tag, 'LINK': g.link,
         'META_KEY': g.meta_key, 'INDENT': g.indent}
    if rule in m:
        return m[rule]()[1]
    if rule in ('POSTING_FLAG', 'TRANSACTION_FLAG'):
        return g.pick(L.FLAGS)
    if rule == 'BOOL':
        return g.pick(['TRUE', 'FALSE'])
    return g.chars(L.LOW + ' \n', 0, 5)


def respell(g: L.G, rule: str, text: str) -> Optional[str]:
    """Another lexeme of the same class with the SAME value as `text` (a different spelling)."""
    if rule in ('BLOCK_COMMENT', 'INLINE_COMMENT'):
        lines = text.split('\n')
        out = []
        for ln in lines:
            i = ln.find(';')
            if i < 0:
                return None
            body = ln[i + 1:]
            if rule == 'INLINE_COMMENT':
                out.append(ln[:i + 1] + (body[1:] if body.startswith(' ') else ' ' + body))
            else:
                out.append(ln)
        if rule == 'BLOCK_COMMENT':
            bodies = [ln[ln.find(';') + 1:] for ln in lines]
            if all(b.startswith(' ') or not b.rstrip('\r') for b in bodies):
                out = [ln[:ln.find(';') + 1] + (ln[ln.find(';') + 2:] if ln[ln.find(';') + 1:].startswith(' ') else ln[ln.find(';') + 1:]) for ln in lines]
                if any(b[1:2] == ' ' for b in bodies if b.startswith(' ')):
                    return None  # removing one blank would change which blank is "the" separator
            else:
                out = [ln[:ln.find(';') + 1] + ' ' + ln[ln.find(';') + 1:] if ln[ln.find(';') + 1:].rstrip('\r') else ln for ln in lines]
        new = '\n'.join(out)
        return new if new != text else None
    if rule == 'DATE':
        return text.replace('-', '/') if '-' in text else text.replace('/', '-')
    if rule == 'NUMBER':
        if '.' not in text:
            return text + '.'
        if text.endswith('.'):
            return text[:-1]
        return text + '0' if False else None
    if rule == 'TRANSACTION_FLAG':
        return 'txn' if text == '*' else ('*' if text == 'txn' else None)
    if rule == 'ESCAPED_STRING':
        for ch in 'aeiou xyz':
            k = text.find(ch, 1, len(text) - 1)
            if k > 0 and text[k - 1] != '\\':
                return text[:k] + '\\' + text[k:] if ch not in 'ntrfb' else None
        return None
    return None


def gen_tok(g: L.G, root: Any, kinds: tuple = ('value', 'raw', 'indent')) -> Optional[dict]:
    toks = O.store_tokens(root.token_store)
    if not toks:
        return None
    t = toks[g.n(0, len(toks) - 1)] if g.p(0.5) else None
    if t is None or (type(t).RULE not in TOKEN_VALUE_CLASSES and 'raw' not in kinds):
        cands = [x for x in toks if type(x).RULE in TOKEN_VALUE_CLASSES]
        if not cands:
            return None
        t = cands[g.n(0, len(cands) - 1)]
    rule = type(t).RULE
    same = [x for x in toks if type(x).RULE == rule]
    ti = next(i for i, x in enumerate(same) if x is t)
    ks = [k for k in kinds if (k == 'value' and rule in TOKEN_VALUE_CLASSES) or k == 'raw' or (k == 'indent' and rule == 'BLOCK_COMMENT')]
    if not ks:
        return None
    kind = g.pick(ks)
    op = {'f': 'tok', 'cls': rule, 'ti': ti, 'kind': kind}
    if kind == 'value':
        op['v'] = token_value(g, rule)
    elif kind == 'raw':
        op['t'] = token_lexeme(g, rule)
        if g.p(0.35):
            r = respell(g, rule, t.raw_text)   # same value, different spelling: the characters must still be replaced
            if r is not None:
                op['t'] = r
                op['respell'] = True
    else:
        op['t'] = g.chars(' \t', 0, 5)
    return op


def gen_for(g: L.G, root: Any, m: Any, p: S.Prop, cname: str, mi: int, shape: Optional[str] = None,
            misfit_prob: float = 0.0) -> Optional[dict]:
    """Draws one operation on property p of model m."""
    base_op = {'cls': cname, 'mi': mi, 'prop': p.name}
    misfit = g.p(misfit_prob)
    if p.kind in ('opt', 'copt', 'uopt'):
        none = (shape == 'none') if shape else g.p(0.4)
        op = {'f': 'opt', **base_op, 'donor': None if none else donor_for(g, m, p, misfit)}
        if misfit and not none:
            op['misfit'] = True
        return op
    if p.kind == 'req':
        return {'f': 'req', **base_op, 'donor': donor_for(g, m, p)}
    if p.kind in ('rval', 'oval'):
        if p.kind == 'oval' and ((shape == 'none') if shape else g.p(0.3)):
            v = {'vt': 'bool', 'v': False} if p.domain == 'bool' else {'vt': 'none', 'v': None}
        else:
            v = D.value(p.domain, g)
            if p.domain == 'bool':
                v = {'vt': 'bool', 'v': True} if shape == 'value' else v
        if p.kind == 'rval' and v['vt'] == 'none':
            return None
        if p.name in ('leading_comment', 'trailing_comment') and type(m).__name__ not in INDENTED_OWNERS and v['vt'] == 'str':
            pass
        return {'f': 'val', **base_op, 'v': v}
    if p.kind in ('list', 'clist'):
        w = getattr(m, p.name)
        n = len(w)
        name = shape or g.pick(LIST_OPS)
        if not shape and g.p(0.06):
            same = index_models(root).get(cname, [])
            return {'f': 'list', **base_op, 'op': 'assign', 'src': {'cls': cname, 'mi': g.n(0, len(same) - 1) if same else 0}}
        return _gen_listop(g, 'list', base_op, name, n, lambda: donor_for(g, m, p, misfit), misfit)
    if p.kind in ('fview', 'rawmeta', 'meta'):
        w = getattr(m, p.name)
        n = len(w)
        if p.kind in ('rawmeta', 'meta') and g.p(0.5) and not shape:
            return _gen_mapop(g, base_op, m, p, w)
        name = shape or g.pick(LIST_OPS + ['discard', 'reverse'])
        return _gen_listop(g, 'view', base_op, name, n, lambda: donor_for(g, m, p, misfit), misfit)
    if p.kind in ('sview', 'cview'):
        w = getattr(m, p.name)
        n = len(w)
        name = shape or g.pick(LIST_OPS + ['discard', 'reverse'])
        op = _gen_listop(g, 'view', base_op, name, n, lambda: None, False)
        if op is None:
            return None
        k = len(op.pop('donors', []))
        op['vals'] = [D.value(p.domain, g) for _ in range(k)]
        return op
    return None


def _gen_listop(g: L.G, fam: str, base_op: dict, name: str, n: int, donor: Callable[[], Any], misfit: bool) -> Optional[dict]:
    op: dict = {'f': fam, **base_op, 'op': name}
    if name == 'iadd':
        op['stmt'] = g.p(0.5)
    if name in ('insert', 'pop', 'del', 'set', 'remove', 'discard'):
        op['i'] = gen_index(g, n)
    if name in ('delslice', 'setslice'):
        op['i'], op['j'], op['k'] = gen_slice(g, n)
    cnt = NEEDS_DONORS.get(name, 0)
    if name in ('extend', 'iadd'):
        cnt = g.pick([0, 1, 2, 3])
    if name == 'setslice':
        try:
            r = range(n)[slice(op['i'], op['j'], op['k'])]
            cnt = g.pick([len(r), len(r), 0, 1, 2, 3]) if (op['k'] in (None, 1) or g.p(0.2)) else len(r)
        except Exception:  # noqa: BLE001
            cnt = 1
    op['donors'] = [donor() for _ in range(cnt)]
    if misfit and cnt:
        op['misfit'] = True
    return op


def _gen_mapop(g: L.G, base_op: dict, m: Any, p: S.Prop, w: Any) -> dict:
    keys = []
    try:
        keys = [x.key for x in w]
    except Exception:  # noqa: BLE001
        pass
    key = g.pick(keys) if keys and g.p(0.6) else g.meta_key()[1][:-1]
    name = g.pick(['set', 'set', 'del', 'pop', 'pop_default', 'setdefault', 'popitem', 'update'])
    op = {'f': 'map', **base_op, 'op': name, 'key': key}
    if name == 'update':
        op['sel'] = g.n(0, 5)
        return op
    if name == 'popitem':
        return op
    if p.kind == 'rawmeta':
        ind = sibling_indent(m, p)
        text = L.text_of([g.meta_item_line(['INDENT', ind])])
        # force the key of the donor to be the assigned key
        item_key = g.meta_key()
        del item_key
        op['donor'] = {'k': 'meta_item', 't': _with_key(text, ind or '', key)}
    else:
        op['v'] = D.value('meta_value', g)
    return op


def _with_key(text: str, ind: str, key: str) -> str:
    rest = text[len(ind):]
    colon = rest.index(':')
    return ind + key + rest[colon:]


FAMILY_KINDS = {
    'opt': {'opt', 'copt', 'uopt'}, 'req': {'req'}, 'val': {'rval', 'oval'}, 'list': {'list', 'clist'},
    'view': {'fview', 'rawmeta', 'meta', 'sview', 'cview'},
}


def propose(g: L.G, root: Any, families: list[str], misfit_prob: float = 0.0, hot: Optional[set] = None) -> Optional[dict]:
    """Draws one applicable operation from the given families for the current document state.
    `hot`: ids of models inserted/moved/copied earlier; with some probability the target is chosen among them."""
    fam = g.pick(families)
    if fam in ('tok', 'tokraw') and hot and g.p(0.6):
        # a token edit through a node that an earlier operation inserted, moved or copied
        hm = [m for ms in index_models(root).values() for m in ms if id(m) in hot]
        if hm:
            m = hm[g.n(0, len(hm) - 1)]
            try:
                inner = [t for t in m.tokens if type(t).RULE in TOKEN_VALUE_CLASSES]
            except Exception:  # noqa: BLE001
                inner = []
            if inner:
                t = inner[g.n(0, len(inner) - 1)]
                rule = type(t).RULE
                same = [x for x in O.store_tokens(root.token_store) if type(x).RULE == rule]
                ti = next((i for i, x in enumerate(same) if x is t), None)
                if ti is not None:
                    return {'f': 'tok', 'cls': rule, 'ti': ti, 'kind': 'value', 'v': token_value(g, rule), 'hot': True}
    if fam == 'tok':
        return gen_tok(g, root, ('value',))
    if fam == 'tokraw':
        return gen_tok(g, root, ('value', 'raw', 'indent'))
    if fam in FAMILY_KINDS:
        cands = candidates(root, FAMILY_KINDS[fam])
        if hot and g.p(0.6):
            hc = [x for x in cands if id(x[0]) in hot]
            cands = hc or cands
        if not cands:
            return None
        # stratify: choose a (class, prop) pair uniformly first, then an instance
        pairs = sorted({(c, p.name) for _, p, c, _ in cands})
        cn, pn = pairs[g.n(0, len(pairs) - 1)]
        inst = [x for x in cands if x[2] == cn and x[1].name == pn]
        m, p, cname, mi = inst[g.n(0, len(inst) - 1)]
        return gen_for(g, root, m, p, cname, mi, misfit_prob=misfit_prob)
    if fam == 'space':
        if hot and g.p(0.6):
            # a spacing access on a model (or a token of it) that an earlier operation created, inserted, moved or copied
            idx = index_models(root)
            hm = [(cn, i, m) for cn, ms in sorted(idx.items()) for i, m in enumerate(ms) if id(m) in hot and cn != 'File' and hasattr(type(m), 'spacing_before')]
            if hm:
                cn, i, m = hm[g.n(0, len(hm) - 1)]
                text = g.pick(['', ' ', '  ', '\t', '\n', ' \n ', '\r\n', '\n\n']) if g.p(0.6) else g.chars(' \t\n', 0, 5)
                if g.p(0.3):
                    try:
                        inner = [t for t in m.tokens if t.raw_text != '']
                        allt = O.store_tokens(root.token_store)
                        t = inner[g.n(0, len(inner) - 1)]
                        ti = next(k for k, x in enumerate(allt) if x is t)
                        return {'f': 'space', 'ti': ti, 'side': g.pick(['before', 'after']), 'text': text, 'hot': True}
                    except Exception:  # noqa: BLE001
                        pass
                return {'f': 'space', 'cls': cn, 'mi': i, 'side': g.pick(['before', 'after']), 'text': text, 'hot': True}
        toks = O.store_tokens(root.token_store)
        if g.p(0.5) and toks:
            return {'f': 'space', 'ti': g.n(0, len(toks) - 1), 'side': g.pick(['before', 'after']), 'text': g.chars(' \t\n', 0, 4)}
        idx = index_models(root)
        names = sorted(n for n in idx if n != 'File')
        if not names:
            return None
        cn = g.pick(names)
        return {'f': 'space', 'cls': cn, 'mi': g.n(0, len(idx[cn]) - 1), 'side': g.pick(['before', 'after']),
                'text': g.pick(['', ' ', '  ', '\t', '\n', ' \n ', '\r\n', '\n\n']) if g.p(0.6) else g.chars(' \t\n', 0, 5)}
    if fam == 'claim':
        idx = index_models(root)
        names = sorted(idx)
        cn = g.pick(names)
        m = idx[cn][0]
        ops = ['auto']
        if hasattr(m, 'claim_leading_comment'):
            ops += ['claim_leading_comment', 'unclaim_leading_comment', 'claim_trailing_comment', 'unclaim_trailing_comment']
        lists = [p.name for p in S.props_of(m) if p.kind == 'clist']
        if lists:
            ops += ['claim_interleaving_comments', 'unclaim_interleaving_comments']
        name = g.pick(ops)
        op = {'f': 'claim', 'cls': cn, 'mi': g.n(0, len(idx[cn]) - 1), 'op': name}
        if 'interleaving' in name:
            op['prop'] = g.pick(lists)
        return op
    if fam in ('copyins', 'popins'):
        cands = candidates(root, {'list', 'clist'})
        if not cands:
            return None
        m, p, cname, mi = cands[g.n(0, len(cands) - 1)]
        w = getattr(m, p.name)
        if fam == 'copyins':
            idx = index_models(root)
            srcs = [(cn, i) for cn, ms in idx.items() for i, x in enumerate(ms) if _compatible(x, p.donors or [])]
            if not srcs:
                return None
            cn, i = srcs[g.n(0, len(srcs) - 1)]
            return {'f': 'copyins', 'src': {'cls': cn, 'mi': i}, 'cls': cname, 'mi': mi, 'prop': p.name, 'i': gen_index(g, len(w))}
        srcs2 = [(mm, pp, cn, i) for mm, pp, cn, i in cands if len(getattr(mm, pp.name)) and set(pp.donors or []) & set(p.donors or [])]
        if not srcs2:
            return None
        mm, pp, cn, i = srcs2[g.n(0, len(srcs2) - 1)]
        return {'f': 'popins', 'src': {'cls': cn, 'mi': i, 'prop': pp.name, 'i': g.n(0, 5)}, 'cls': cname, 'mi': mi, 'prop': p.name,
                'j': gen_index(g, len(w))}
    if fam == 'arith':
        idx = index_models(root)
        es = idx.get('NumberExpr')
        if not es:
            return None
        x = g.n(0, 2)
        if x == 0:
            operand = {'vt': 'int', 'v': g.n(-9, 99)}
        elif x == 1:
            operand = {'vt': 'dec', 'v': str(D.decimal_value(g))}
        else:
            operand = {'vt': 'expr', 'v': L.text_of([g.number_expr()])}
        return {'f': 'arith', 'mi': g.n(0, len(es) - 1), 'op': g.pick(ARITH_OPS), 'operand': operand, 'stmt': g.p(0.5)}
    return None


def build_program(rnd: Any, cfg: L.Cfg, families: list[str], max_ops: int, parse: Callable[[str], Any],
                  misfit_prob: float = 0.0, min_dirs: int = 1, stick: float = 0.0, prime: Optional[Callable[[Any], None]] = None) -> dict:
    """State-aware generation: draws a document, then operations that are applicable in the state reached so far
    (each drawn operation is applied to a scratch copy to advance the state)."""
    g = L.G(rnd, cfg)
    chunks = g.document()
    case: dict = {'dirs': chunks, 'ops': []}
    try:
        root = parse(L.text_of(chunks))
    except Exception:  # noqa: BLE001
        return case
    nops = g.n(1, max_ops)
    hot: set = set()
    if prime is not None and g.p(0.5):
        case['prime'] = True
        try:
            prime(root)
        except Exception:  # noqa: BLE001
            pass
    for _ in range(nops):
        try:
            op = propose(g, root, families, misfit_prob, hot)
        except Exception:  # noqa: BLE001 - a broken state ends generation; run_case will meet the same state
            break
        if op is None:
            continue
        case['ops'].append(op)
        try:
            act = resolve(root, op)
            act.run()
            for x in act.inserted:
                hot.update(id(m) for m, _ in O.walk(x) if isinstance(m, base.RawTreeModel))
            if stick and act.P is not None and g.p(stick):
                hot.add(id(act.P))  # keep working on the same model: aliasing bugs need several operations on one list
        except NotApplicable:
            case['ops'].pop()
        except Exception:  # noqa: BLE001
            if g.p(0.5):
                break
    return case
