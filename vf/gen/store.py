"""G7 - token-store histories, and the engine that replays them against TokenStore and a plain list.

case = {"lf": int, "init": [text...], "ops": [op...]}
op   = {"op": "splice", "a": int, "b": int, "new": [text...]}      list[a:b] = new   (a, b ordinals after reduction)
       {"op": "insert_after", "ref": int (-1 -> None), "new": [...]}
       {"op": "insert_before", "ref": int (-1 -> None), "new": [...]}
       {"op": "replace", "t": int, "new": [text]}
       {"op": "remove", "a": int, "b": int}                            inclusive range, b reduced to >= a
       {"op": "update", "t": int, "text": str}                         raw_text update
       {"op": "permute", "a": int, "b": int, "rot": int}               splice a rotation of tokens a..b over a..b
       {"op": "foreign", "a": int, "b": int, "k": int}                 must be refused: token of another store
       {"op": "dup", "a": int, "b": int, "t": int}                     must be refused: token of this store outside a..b
       {"op": "twice", "ref": int, "text": str, "extra": int}           must be refused: one free token twice in the batch
All selector ints are reduced modulo the number of candidates in the current state.
"""
from __future__ import annotations

from typing import Any, Callable, Optional

from autobean_refactor import token_store as ts

TEXTS = ['', 'a', 'bb', '\n', 'x\ny', 'q\n', 'ccc', '\r\n', ' ']
LFS = [2, 3, 4, 5, 6, 7, 8, 9, 10, 13, 16, 1000]   # 'all load factors >= 2': odd and even ones (HALF and ONE_HALF round differently)


def set_lf(lf: int) -> tuple:
    old = (ts._LOAD_FACTOR, ts._DOUBLE_LOAD_FACTOR, ts._HALF_LOAD_FACTOR, ts._ONE_HALF_LOAD_FACTOR)
    ts._LOAD_FACTOR = lf
    ts._DOUBLE_LOAD_FACTOR = lf * 2
    ts._HALF_LOAD_FACTOR = lf // 2
    ts._ONE_HALF_LOAD_FACTOR = lf + lf // 2
    return old


def restore_lf(old: tuple) -> None:
    ts._LOAD_FACTOR, ts._DOUBLE_LOAD_FACTOR, ts._HALF_LOAD_FACTOR, ts._ONE_HALF_LOAD_FACTOR = old


def _texts(rnd: Any, n: int) -> list[str]:
    return [rnd.choice(TEXTS) for _ in range(n)]


def build_history(rnd: Any, max_ops: int, with_update: bool = True, big: bool = False) -> dict:
    lf = rnd.choice(LFS[:8] if not big else LFS)
    base = lf if lf <= 16 else 4
    n0 = rnd.randint(0, 12 * base) if rnd.randint(0, 99) < 80 else rnd.randint(0, 3)
    case = {'lf': lf, 'init': _texts(rnd, n0), 'ops': []}
    nops = rnd.randint(1, max_ops)
    for _ in range(nops):
        r = (rnd.randint(0, 99) / 100)
        sizes = [0, 1, 1, 2, base, base + 1, 2 * base, 3 * base]
        if lf == 1000 and rnd.randint(0, 99) < 20:
            sizes = [1001, 1600, 2100]
        k = rnd.choice(sizes)
        if r < 0.30:
            op = {'op': 'splice', 'a': rnd.randint(0, 200), 'b': rnd.randint(0, 200) if rnd.randint(0, 99) < 70 else 0, 'new': _texts(rnd, k)}
            if rnd.randint(0, 99) < 30:  # long span: whole blocks
                op['b'] = rnd.randint(base, 6 * base)
        elif r < 0.42:
            op = {'op': 'insert_after', 'ref': rnd.randint(-1, 200), 'new': _texts(rnd, k)}
        elif r < 0.52:
            op = {'op': 'insert_before', 'ref': rnd.randint(-1, 200), 'new': _texts(rnd, k)}
        elif r < 0.57:
            op = {'op': 'replace', 't': rnd.randint(0, 200), 'new': _texts(rnd, 1)}
        elif r < 0.585:
            op = {'op': 'replace_self', 't': rnd.randint(0, 200)}
        elif r < 0.60:
            op = {'op': 'replace_attached', 't': rnd.randint(0, 200), 'd': rnd.randint(0, 200)}
        elif r < 0.74:
            op = {'op': 'remove', 'a': rnd.randint(0, 200), 'b': rnd.choice([0, 0, 1, 2, base, 2 * base, 4 * base])}
        elif r < 0.86 and with_update:
            op = {'op': 'update', 't': rnd.randint(0, 200), 'text': rnd.choice(TEXTS)}
        elif r < 0.91:
            op = {'op': 'permute', 'a': rnd.randint(0, 200), 'b': rnd.randint(0, 2 * base), 'rot': rnd.randint(1, 5)}
        elif r < 0.96:
            op = {'op': 'foreign', 'a': rnd.randint(0, 200), 'b': rnd.randint(0, 4), 'k': rnd.randint(0, 200), 'same_shape': rnd.randint(0, 99) < 60}
        elif r < 0.985:
            op = {'op': 'dup', 'a': rnd.randint(0, 200), 'b': rnd.randint(0, 4), 't': rnd.randint(0, 200)}
        else:
            op = {'op': 'twice', 'ref': rnd.randint(-1, 200), 'text': rnd.choice(TEXTS), 'extra': rnd.randint(0, 2), 'via': rnd.choice(['insert', 'insert', 'from_tokens'])}
        case['ops'].append(op)
    return case


class Step:
    """What one operation did, for the checkers."""
    __slots__ = ('op', 'kind', 'removed', 'raised', 'must_refuse', 'blocks_before', 'blocks_after', 'span_blocks', 'updated_index', 'lines_changed')


def replay(case: dict, after: Callable[[Any, list, Step], Optional[tuple]], token_cls: Any = ts.Token) -> Optional[tuple]:
    """Runs the history. `after(store, model, step)` returns None or (bucket, message) to stop.
    Returns the first (bucket, message) or None."""
    old = set_lf(int(case['lf']))
    try:
        model = [token_cls(t) for t in case['init']]
        store = ts.TokenStore.from_tokens(list(model))
        step = Step()
        step.op, step.kind, step.removed, step.raised, step.must_refuse = {'op': 'init'}, 'init', [], None, False
        step.blocks_before = step.blocks_after = _nblocks(store)
        step.span_blocks = 1
        step.updated_index, step.lines_changed = None, False
        r = after(store, model, step)
        if r:
            return r
        for op in case['ops']:
            step = Step()
            step.op, step.kind, step.removed, step.raised, step.must_refuse = op, op.get('op'), [], None, False
            step.blocks_before = _nblocks(store)
            step.span_blocks = 1
            step.updated_index, step.lines_changed = None, False
            n = len(model)
            kind = op.get('op')
            expected = None  # new model list
            call: Optional[Callable[[], None]] = None
            if kind == 'splice':
                a = op['a'] % (n + 1)
                b = a + op['b'] % (n - a + 1)
                new = [token_cls(t) for t in op['new']]
                expected = model[:a] + new + model[b:]
                step.removed = model[a:b]
                if a == b:
                    if a == n:
                        ref = model[-1] if model else None
                        call = (lambda ref=ref, new=new: store.insert_after(ref, new))
                    else:
                        call = (lambda a=a, new=new: store.splice(new, model[a]))
                else:
                    call = (lambda a=a, b=b, new=new: store.splice(new, model[a], model[b - 1]))
                    step.span_blocks = _span(model[a], model[b - 1])
            elif kind in ('insert_after', 'insert_before'):
                new = [token_cls(t) for t in op['new']]
                if op['ref'] < 0 or n == 0:
                    expected = new + model
                    call = (lambda new=new, kind=kind: getattr(store, kind)(None, new))
                else:
                    i = op['ref'] % n
                    if kind == 'insert_after':
                        expected = model[:i + 1] + new + model[i + 1:]
                    else:
                        expected = model[:i] + new + model[i:]
                    call = (lambda i=i, new=new, kind=kind: getattr(store, kind)(model[i], new))
            elif kind == 'replace':
                if n == 0:
                    continue
                i = op['t'] % n
                new = [token_cls(t) for t in op['new'][:1]] or [token_cls('z')]
                expected = model[:i] + new + model[i + 1:]
                step.removed = [model[i]]
                call = (lambda i=i, new=new: store.replace(model[i], new[0]))
            elif kind == 'replace_self':
                # a token replaced by itself: the sequence is the same list afterwards, and the token still knows its place
                if n == 0:
                    continue
                i = op['t'] % n
                expected = list(model)
                call = (lambda i=i: store.replace(model[i], model[i]))
            elif kind == 'replace_attached':
                # replaced by a token that lives elsewhere in this store: must be refused
                if n < 2:
                    continue
                i = op['t'] % n
                j = (i + 1 + op.get('d', 0) % (n - 1)) % n
                step.must_refuse = True
                expected = list(model)
                call = (lambda i=i, j=j: store.replace(model[i], model[j]))
            elif kind == 'remove':
                if n == 0:
                    continue
                a = op['a'] % n
                b = min(n - 1, a + op['b'])
                expected = model[:a] + model[b + 1:]
                step.removed = model[a:b + 1]
                step.span_blocks = _span(model[a], model[b])
                if a == b and op['b'] == 0:
                    call = (lambda a=a: store.remove(model[a]))
                else:
                    call = (lambda a=a, b=b: store.remove(model[a], model[b]))
            elif kind == 'update':
                if n == 0:
                    continue
                i = op['t'] % n
                expected = list(model)
                step.updated_index = i
                step.lines_changed = model[i].raw_text.count('\n') != op['text'].count('\n')

                def call(i: int = i, text: str = op['text']) -> None:
                    model[i].raw_text = text
            elif kind == 'permute':
                if n == 0:
                    continue
                a = op['a'] % n
                b = min(n - 1, a + op['b'])
                seg = model[a:b + 1]
                rot = op['rot'] % len(seg)
                new = seg[rot:] + seg[:rot]
                expected = model[:a] + new + model[b + 1:]
                step.span_blocks = _span(model[a], model[b])
                call = (lambda a=a, b=b, new=new: store.splice(new, model[a], model[b]))
            elif kind == 'foreign':
                # a token that lives in another store must be refused, wherever it sits there
                step.must_refuse = True
                expected = list(model)
                a = op['a'] % (n + 1)
                b = a + op['b'] % (n - a + 1)
                if op.get('same_shape') and model:
                    src = [token_cls(t.raw_text) for t in model]
                    ts.TokenStore.from_tokens(list(src))
                    lo = _coord(model[min(a, n - 1)])
                    hi = _coord(model[b - 1]) if b > a else lo
                    if lo is not None and hi is not None:
                        hi = (hi[0], hi[1] + 1) if b > a else hi
                        cands = [t for t in src if _coord(t) is not None and lo <= _coord(t) <= hi]
                    else:
                        cands = []
                    tok = cands[op['k'] % len(cands)] if cands else src[op['k'] % len(src)]
                else:
                    src = [token_cls('f') for _ in range(3)]
                    ts.TokenStore.from_tokens(list(src))
                    tok = src[op['k'] % len(src)]
                if a == b:
                    ref = model[a] if a < n else None
                    if ref is None:
                        call = (lambda tok=tok: store.insert_after(model[-1] if model else None, [tok]))
                    else:
                        call = (lambda tok=tok, ref=ref: store.splice([tok], ref))
                else:
                    call = (lambda tok=tok, a=a, b=b: store.splice([tok], model[a], model[b - 1]))
            elif kind == 'dup':
                if n < 2:
                    continue
                step.must_refuse = True
                expected = list(model)
                a = op['a'] % n
                b = min(n - 1, a + op['b'])
                outside = [i for i in range(n) if i < a or i > b]   # the token right after the range included: it is not being replaced
                if not outside:
                    continue
                t = outside[op['t'] % len(outside)]
                call = (lambda a=a, b=b, t=t: store.splice([model[t]], model[a], model[b]))
            elif kind == 'twice':
                # one free token object twice in the same batch: must be refused (it cannot be at two positions)
                step.must_refuse = True
                expected = list(model)
                tok = token_cls(op['text'])
                batch = [tok] + [token_cls('q') for _ in range(op.get('extra', 0))] + [tok]
                ref = model[op['ref'] % n] if n and op['ref'] >= 0 else None
                if op.get('via') == 'from_tokens':
                    call = (lambda batch=batch: ts.TokenStore.from_tokens(batch))   # a new store from a batch that names one token twice
                else:
                    call = (lambda batch=batch, ref=ref: store.insert_after(ref, batch))
            else:
                continue
            try:
                assert call is not None
                call()
            except Exception as e:  # noqa: BLE001 - classified by the checker
                step.raised = e
                if step.must_refuse and isinstance(e, ValueError):
                    expected = list(model)
                elif not step.must_refuse:
                    step.blocks_after = _nblocks(store)
                    return ('raised:' + str(kind) + ':' + type(e).__name__,
                            f'{kind} raised {type(e).__name__}: {e} on a valid operation {op}')
            else:
                if step.must_refuse:
                    return ('not-refused:' + str(kind),
                            f'{op}: a token that already lives in a store was accepted')
            model[:] = expected
            step.blocks_after = _nblocks(store)
            r = after(store, model, step)
            if r:
                return r
        return None
    finally:
        restore_lf(old)


def _nblocks(store: Any) -> int:
    return len(getattr(store, '_blocks', ()) or ())


def _span(a: Any, b: Any) -> int:
    try:
        return b.store_handle.block.index - a.store_handle.block.index + 1
    except Exception:
        return 1


def _coord(t: Any) -> Optional[tuple]:
    try:
        return (t.store_handle.block.index, t.store_handle.index)
    except Exception:
        return None
