"""Schema of the model classes: hand-written slot/value tables cross-checked against reflection over the descriptors.

A descriptor the tables do not know, or a table row without a descriptor, is a harness error (HarnessError), so that a new or
renamed field cannot silently go untested.
"""
from __future__ import annotations

from typing import Any

from autobean_refactor import models
from autobean_refactor.models import meta_value_internal, meta_item_internal
from autobean_refactor.models.internal import base_property, fields, interleaving_comments, properties, value_properties

COMMON = {'token_store', 'first_token', 'last_token', 'tokens', 'raw_spacing_before', 'spacing_before', 'raw_spacing_after',
          'spacing_after'}

# raw slot name -> donor kinds (see donors.make); class-specific overrides keyed 'Class.prop'
SLOT = {
    'raw_leading_comment': ['BLOCK_COMMENT'], 'raw_trailing_comment': ['BLOCK_COMMENT'], 'raw_inline_comment': ['INLINE_COMMENT'],
    'raw_date': ['DATE'], 'raw_account': ['ACCOUNT'], 'raw_source_account': ['ACCOUNT'], 'raw_currency': ['CURRENCY'],
    'raw_number': ['number_expr'], 'raw_tolerance': ['tolerance'], 'raw_indent': ['INDENT'],
    'Posting.raw_flag': ['POSTING_FLAG'], 'Transaction.raw_flag': ['TRANSACTION_FLAG'],
    'raw_cost': ['cost_spec'], 'raw_price': ['unit_price', 'total_price'], 'CostSpec.raw_cost': ['unit_cost', 'total_cost'],
    'raw_key': ['META_KEY'], 'Option.raw_key': ['ESCAPED_STRING'],
    'raw_value': ['ESCAPED_STRING', 'ACCOUNT', 'DATE', 'CURRENCY', 'TAG', 'BOOL', 'NULL', 'number_expr', 'amount'],
    'Option.raw_value': ['ESCAPED_STRING'],
    'raw_type': ['ESCAPED_STRING'], 'raw_description': ['ESCAPED_STRING'], 'raw_filename': ['ESCAPED_STRING'],
    'raw_comment': ['ESCAPED_STRING'], 'raw_name': ['ESCAPED_STRING'], 'raw_query_string': ['ESCAPED_STRING'],
    'raw_config': ['ESCAPED_STRING'], 'raw_booking': ['ESCAPED_STRING'],
    'raw_string0': ['ESCAPED_STRING'], 'raw_string1': ['ESCAPED_STRING'], 'raw_string2': ['ESCAPED_STRING'],
    'raw_payee': ['ESCAPED_STRING'], 'raw_narration': ['ESCAPED_STRING'],
    'raw_tag': ['TAG'], 'raw_amount': ['amount'], 'raw_ignored': ['IGNORED'],
    'raw_number_per': ['number_expr'], 'raw_number_total': ['number_expr'],
    'raw_unary_op': ['UNARY_OP'], 'raw_operand': ['NUMBER', 'number_paren_expr', 'number_unary_expr'],
    'raw_inner_expr': ['add_expr'], 'raw_number_add_expr': ['add_expr'],
    'raw_compound_amount_comp': ['compound_amount'], 'raw_amount_comp': ['amount'], 'raw_number_comp': ['number_expr'],
    'raw_currency_comp': ['CURRENCY'], 'raw_date_comp': ['DATE'], 'raw_label_comp': ['ESCAPED_STRING'],
    'raw_asterisk_comp': ['ASTERISK'],
    # lists
    'raw_meta_with_comments': ['meta_item', 'BLOCK_COMMENT_IND'],
    'raw_postings_with_comments': ['posting', 'BLOCK_COMMENT_IND'],
    'raw_directives_with_comments': ['directive', 'BLOCK_COMMENT'],
    'raw_tags_links': ['TAG', 'LINK'], 'raw_currencies': ['CURRENCY'],
    'raw_values': ['ESCAPED_STRING', 'DATE', 'BOOL', 'amount', 'number_expr', 'ACCOUNT'],
    'raw_components': ['DATE', 'ASTERISK', 'ESCAPED_STRING', 'CURRENCY', 'number_expr', 'amount', 'compound_amount'],
    # filtered views
    'raw_meta': ['meta_item'], 'meta': ['meta_item'], 'raw_postings': ['posting'], 'raw_directives': ['directive'],
}

# value-level property -> value domain name (see donors.value)
VALUE = {
    'leading_comment': 'comment', 'trailing_comment': 'comment', 'inline_comment': 'inline_comment',
    'date': 'date', 'account': 'account', 'source_account': 'account', 'currency': 'currency',
    'number': 'decimal', 'tolerance': 'decimal_nonneg_ok', 'number_per': 'decimal', 'number_total': 'decimal',
    'indent': 'indent', 'Posting.flag': 'posting_flag', 'Transaction.flag': 'posting_flag',
    'key': 'meta_key', 'Option.key': 'str', 'value': 'meta_value', 'Option.value': 'str',
    'type': 'str', 'description': 'str', 'filename': 'str', 'comment': 'str', 'name': 'str', 'query_string': 'str',
    'config': 'str', 'booking': 'str', 'string0': 'str', 'string1': 'str', 'string2': 'str', 'payee': 'str', 'narration': 'str',
    'label': 'str', 'tag': 'tag', 'merge': 'bool',
    # string views
    'tags': 'tag', 'links': 'tag', 'currencies': 'currency', 'values': 'custom_value',
}

OPTIONAL_VALUE_KINDS = {'optional_string_property', 'optional_indented_string_property', 'optional_decimal_property',
                        'optional_date_property', 'optional_meta_value_property'}

KIND_OF = {
    properties.required_node_property: 'req',
    properties.optional_node_property: 'opt',
    properties.repeated_node_property: 'list',
    interleaving_comments.repeated_node_with_interleaving_comments_property: 'clist',
    value_properties.repeated_filtered_node_property: 'fview',
    value_properties.repeated_string_property: 'sview',
    meta_item_internal.repeated_raw_meta_item_property: 'rawmeta',
    meta_item_internal.repeated_meta_item_property: 'meta',
    value_properties.required_value_property: 'rval',
    value_properties.optional_string_property: 'oval',
    value_properties.optional_indented_string_property: 'oval',
    value_properties.optional_decimal_property: 'oval',
    value_properties.optional_date_property: 'oval',
    meta_value_internal.optional_meta_value_property: 'oval',
    properties.unordered_node_property: 'uopt',
    properties.cached_custom_property: 'cview',
    properties.custom_property: 'custom',
    fields.data_field: 'data',
    property: 'pyprop',
}

# custom / python properties by name: how they are treated
CUSTOM = {
    'raw_payee': 'opt', 'raw_narration': 'opt', 'raw_number_per': 'opt', 'raw_number_total': 'opt', 'raw_currency': 'opt',
    'raw_cost_components': 'alias-list', 'value': 'ro', 'raw_operands': 'ro', 'raw_ops': 'ro', 'merge': 'oval-bool',
    'indent_by': 'data',
}


class Prop:
    __slots__ = ('cls', 'name', 'kind', 'donors', 'domain', 'aliases', 'optional')

    def __repr__(self) -> str:
        return f'{self.cls.__name__}.{self.name}:{self.kind}'


class HarnessSchemaError(Exception):
    pass


_SCHEMA: dict[str, list[Prop]] = {}


def _lookup(table: dict, cls: Any, name: str) -> Any:
    return table.get(f'{cls.__name__}.{name}', table.get(name))


def build() -> dict[str, list[Prop]]:
    if _SCHEMA:
        return _SCHEMA
    problems = []
    for rule, cls in models.TREE_MODELS.items():
        names: dict[str, Any] = {}
        for klass in reversed(cls.__mro__):
            for k, v in vars(klass).items():
                if isinstance(v, (base_property.base_ro_property, meta_value_internal.optional_meta_value_property, property)):
                    names[k] = v
        first_name: dict[int, str] = {}
        props = []
        for k, v in names.items():
            if k in COMMON or k.startswith('_'):
                continue
            if id(v) in first_name:
                for p in props:
                    if p.name == first_name[id(v)]:
                        p.aliases.append(k)
                continue
            first_name[id(v)] = k
            kind = None
            for t, kk in KIND_OF.items():
                if type(v) is t:
                    kind = kk
            if kind is None:
                for t, kk in KIND_OF.items():
                    if isinstance(v, t):
                        kind = kk
                        break
            if kind is None:
                problems.append(f'{cls.__name__}.{k}: unknown descriptor type {type(v).__name__}')
                continue
            if kind in ('custom', 'pyprop', 'data'):
                sub = CUSTOM.get(k)
                if sub is None:
                    problems.append(f'{cls.__name__}.{k}: custom/python property without a treatment')
                    continue
                kind = {'opt': 'copt', 'alias-list': 'skip', 'ro': 'ro', 'oval-bool': 'oval', 'data': 'data'}[sub]
            p = Prop()
            p.cls, p.name, p.kind, p.aliases = cls, k, kind, []
            p.donors = _lookup(SLOT, cls, k) if kind in ('req', 'opt', 'copt', 'uopt', 'list', 'clist', 'fview', 'rawmeta', 'meta') else None
            p.domain = _lookup(VALUE, cls, k) if kind in ('rval', 'oval', 'sview', 'cview') else None
            p.optional = kind in ('opt', 'copt', 'uopt') or (kind == 'oval')
            if kind in ('req', 'opt', 'copt', 'uopt', 'list', 'clist', 'fview', 'rawmeta', 'meta') and not p.donors:
                problems.append(f'{cls.__name__}.{k}: no slot type in the table')
            if kind in ('rval', 'oval', 'sview', 'cview') and not p.domain:
                problems.append(f'{cls.__name__}.{k}: no value domain in the table')
            props.append(p)
        _SCHEMA[cls.__name__] = props
    if problems:
        _SCHEMA.clear()
        raise HarnessSchemaError('schema table out of sync with the code:\n  ' + '\n  '.join(problems))
    return _SCHEMA


def props_of(model: Any) -> list[Prop]:
    return build().get(type(model).__name__, [])


def prop(model_or_cls: Any, name: str) -> Prop:
    cname = model_or_cls if isinstance(model_or_cls, str) else (
        model_or_cls.__name__ if isinstance(model_or_cls, type) else type(model_or_cls).__name__)
    for p in build().get(cname, []):
        if p.name == name or name in p.aliases:
            return p
    raise KeyError(f'{cname}.{name}')


if __name__ == '__main__':
    for cname, props in build().items():
        print(cname, props)
