"""Observation utilities: walker, snapshot, structural invariants, semantic digest, offsets.

Nothing here uses the repository's own traversal helpers (iter_children_formatted, tokens, get_position) as ground
truth: children come from vars(model), order and offsets from iterating the store.
"""
from __future__ import annotations

import decimal

import io
from typing import Any, Iterator, Optional

from autobean_refactor import models
from autobean_refactor.models import base, internal
from autobean_refactor.models.internal import placeholder as _ph, repeated as _rep
from autobean_refactor.models.punctuation import DedentMark, Eol, Comma
from autobean_refactor.models.spacing import Newline, Whitespace
from autobean_refactor.models.block_comment import BlockComment
from autobean_refactor.models.inline_comment import InlineComment

Placeholder = _ph.Placeholder
Repeated = _rep.Repeated
ZERO_WIDTH = (Eol, DedentMark, Placeholder)
TRIVIA = (Whitespace, Newline, Comma)


def print_text(model: Any) -> str:
    from autobean_refactor import printer
    return printer.print_model(model, io.StringIO()).getvalue()


def store_tokens(store: Any) -> list:
    return list(store) if store is not None else []


def store_text(store: Any) -> str:
    return ''.join(t.raw_text for t in store)


class Order:
    """Ordinal and character offset of every token of a store, computed by iteration."""

    def __init__(self, store: Any) -> None:
        self.tokens = store_tokens(store)
        self.ordinal = {id(t): i for i, t in enumerate(self.tokens)}
        self.offset = []
        off = 0
        for t in self.tokens:
            self.offset.append(off)
            off += len(t.raw_text)
        self.total = off

    def ord(self, t: Any) -> Optional[int]:
        return self.ordinal.get(id(t))


def raw_children(model: Any) -> list:
    """Direct structural children (models) of a tree model, unordered, de-duplicated by identity."""
    if isinstance(model, base.RawTokenModel):
        return []
    out, seen = [], set()

    def add(x: Any) -> None:
        if isinstance(x, base.RawModel) and id(x) not in seen:
            seen.add(id(x))
            out.append(x)

    for key, v in vars(model).items():
        if key == '_token_store':
            continue
        if isinstance(v, base.RawModel):
            add(v)
        elif isinstance(v, (tuple, list)):
            for x in v:
                add(x)
    return out


def children(model: Any, order: Order) -> list:
    ch = raw_children(model)

    def key(c: Any) -> tuple:
        try:
            o = order.ord(c.first_token)
        except Exception:  # noqa: BLE001
            o = None
        return (o if o is not None else 10 ** 9,)
    return sorted(ch, key=key)


def walk(model: Any, order: Optional[Order] = None) -> Iterator[tuple[Any, int]]:
    """Pre-order traversal yielding (model, depth), tokens included."""
    if order is None:
        order = Order(model.token_store)
    stack = [(model, 0)]
    seen = set()
    while stack:
        m, d = stack.pop()
        if id(m) in seen:
            continue
        seen.add(id(m))
        yield m, d
        for c in reversed(children(m, order)):
            stack.append((c, d + 1))


def tree_models(model: Any) -> list:
    return [m for m, _ in walk(model) if isinstance(m, base.RawTreeModel)]


# --------------------------------------------------------------------------- invariants (C05)

def invariants(root: Any, *, whole_store: bool = True, check_comments: bool = True, trivia_extra: tuple = ()) -> list[tuple[str, str]]:
    """Structural invariants of a tree over its token store. Returns [(clause, message)]; empty = holds.

    whole_store: the root must span its store entirely (a File, a popped node, a constructed model)."""
    bad: list[tuple[str, str]] = []
    store = root.token_store
    if store is None:
        return [('no-store', f'{type(root).__name__} has no token store')]
    order = Order(store)
    n = len(order.tokens)
    if len(set(map(id, order.tokens))) != n:
        bad.append(('store-duplicate', 'a token object occurs twice in the store'))
    leaf_count: dict[int, int] = {}
    seen: set[int] = set()

    def span(m: Any) -> Optional[tuple[int, int]]:
        try:
            f, l = m.first_token, m.last_token
        except Exception as e:  # noqa: BLE001
            bad.append(('span-raised', f'{type(m).__name__}.first/last raised {e!r}'))
            return None
        a, b = order.ord(f), order.ord(l)
        if a is None or b is None:
            bad.append(('not-in-store', f'{type(m).__name__}: first/last token not in the root store '
                        f'(first={getattr(f, "raw_text", f)!r} last={getattr(l, "raw_text", l)!r})'))
            return None
        if a > b:
            bad.append(('span-order', f'{type(m).__name__}: first token after last token ({a}>{b})'))
            return None
        return a, b

    def rec(m: Any, depth: int) -> Optional[tuple[int, int]]:
        if id(m) in seen:
            bad.append(('shared-node', f'{type(m).__name__} reachable through two parents'))
            return None
        seen.add(id(m))
        if isinstance(m, base.RawTokenModel):
            o = order.ord(m)
            if o is None:
                bad.append(('leaf-not-in-store', f'tree leaf {type(m).__name__} {m.raw_text!r} is not in the root store'))
                return None
            leaf_count[id(m)] = leaf_count.get(id(m), 0) + 1
            return o, o
        if m.token_store is not store:
            bad.append(('stale-store', f'{type(m).__name__} lives in a different token store than the root'))
        sp = span(m)
        prev_end = None
        prev_name = None
        for c in children(m, order):
            csp = rec(c, depth + 1)
            if csp is None or sp is None:
                continue
            if csp[0] < sp[0] or csp[1] > sp[1]:
                bad.append(('child-outside-parent', f'{type(c).__name__} span {csp} outside parent {type(m).__name__} span {sp}'))
            if prev_end is not None and csp[0] <= prev_end:
                bad.append(('children-overlap', f'in {type(m).__name__}: {type(c).__name__} {csp} overlaps/precedes {prev_name} ending {prev_end}'))
            prev_end, prev_name = max(csp[1], prev_end if prev_end is not None else -1), type(c).__name__
        if isinstance(m, Repeated):
            # items must be in store order
            pos = [order.ord(i.first_token) for i in m.items]
            if any(p is None for p in pos) or pos != sorted(pos):  # type: ignore[type-var]
                bad.append(('items-out-of-order', f'repeated items are not in token order: {pos}'))
        return sp

    rsp = rec(root, 0)
    if whole_store and rsp is not None and n and rsp != (0, n - 1):
        bad.append(('root-not-whole-store', f'{type(root).__name__} spans {rsp} of a store with {n} tokens'))
    lo, hi = rsp if (rsp is not None) else (0, n - 1)
    for i, t in enumerate(order.tokens):
        if t.store_handle is None or t.token_store is not store:
            bad.append(('token-handle', f'store token #{i} {t.raw_text!r} does not point at its store'))
        c = leaf_count.get(id(t), 0)
        if c > 1:
            bad.append(('leaf-twice', f'token #{i} {type(t).__name__} {t.raw_text!r} is a leaf of {c} tree positions'))
        if not (lo <= i <= hi):
            continue
        if isinstance(t, TRIVIA) or (trivia_extra and type(t).__name__ in trivia_extra):
            continue
        if isinstance(t, BlockComment):
            if check_comments:
                if t.claimed and c == 0:
                    bad.append(('comment-claimed-unowned', f'block comment #{i} {t.raw_text!r} is marked claimed but no tree position holds it'))
                if not t.claimed and c:
                    bad.append(('comment-owned-unclaimed', f'block comment #{i} {t.raw_text!r} is held by the tree but not marked claimed'))
            continue
        if c == 0:
            bad.append(('orphan-token', f'significant token #{i} {type(t).__name__} {t.raw_text!r} is not owned by any tree position'))
    return bad


# --------------------------------------------------------------------------- snapshot

class Snapshot:
    """Everything observable about a document: text, token identities and texts, tree structure, comment flags."""

    def __init__(self, root: Any) -> None:
        store = root.token_store
        self.keep = store_tokens(store)  # keeps ids stable
        self.tokens = [(id(t), type(t).__name__, t.raw_text) for t in self.keep]
        self.text = ''.join(x[2] for x in self.tokens)
        self.claimed = [(id(t), t.claimed) for t in self.keep if isinstance(t, BlockComment)]
        self.structure = structure(root)
        self.values = [(id(t), repr(getattr(t, 'value', None))) for t in self.keep if hasattr(t, 'value')]

    def diff(self, other: 'Snapshot') -> Optional[str]:
        if self.text != other.text:
            return f'text changed: {self.text!r} -> {other.text!r}'
        if self.tokens != other.tokens:
            return 'token identities/texts changed (same text): ' + _first_diff(self.tokens, other.tokens)
        if self.claimed != other.claimed:
            return 'claimed flags changed: ' + _first_diff(self.claimed, other.claimed)
        if self.values != other.values:
            return 'token values changed: ' + _first_diff(self.values, other.values)
        if self.structure != other.structure:
            return 'tree structure changed: ' + _first_diff(sorted(self.structure.items()), sorted(other.structure.items()))
        return None


def _first_diff(a: list, b: list) -> str:
    for i, (x, y) in enumerate(zip(a, b)):
        if x != y:
            return f'at {i}: {x!r} != {y!r}'
    return f'lengths {len(a)} != {len(b)}'


def structure(root: Any) -> dict:
    out: dict[int, tuple] = {}
    keep = []
    stack = [root]
    while stack:
        m = stack.pop()
        if id(m) in out:
            continue
        if isinstance(m, base.RawTokenModel):
            out[id(m)] = ('T', type(m).__name__)
            continue
        try:
            f, l = id(m.first_token), id(m.last_token)
        except Exception:  # noqa: BLE001
            f = l = None
        fields = []
        for key, v in sorted(vars(m).items()):
            if key == '_token_store':
                fields.append((key, id(v)))
            elif isinstance(v, base.RawModel):
                fields.append((key, id(v)))
                stack.append(v)
            elif isinstance(v, (tuple, list)) and all(isinstance(x, base.RawModel) for x in v):
                fields.append((key, tuple(id(x) for x in v)))
                stack.extend(v)
            elif isinstance(v, (str, int, bool, type(None))):
                fields.append((key, v))
        out[id(m)] = (type(m).__name__, f, l, tuple(fields))
        keep.append(m)
    _KEEP.append(keep)
    if len(_KEEP) > 64:
        del _KEEP[:32]
    return out


_KEEP: list = []  # keeps recently walked models alive so that ids are not reused between two snapshots


# --------------------------------------------------------------------------- digest (C06, C09, C15)

def digest(m: Any) -> Any:
    """Semantic content: class names, fields, token values. Zero-width marks, block comments, whitespace omitted."""
    if m is None:
        return None
    if isinstance(m, ZERO_WIDTH) or isinstance(m, BlockComment):
        return None
    if isinstance(m, base.RawTokenModel):
        v = getattr(m, 'value', None) if hasattr(m, 'value') else m.raw_text
        if isinstance(m, InlineComment):
            v = (v or '').rstrip(' \t')
        if isinstance(v, int) and not isinstance(v, bool):
            v = decimal.Decimal(v)   # an int written as a number is that number
        if isinstance(v, decimal.Decimal) and v.is_finite() and v.as_tuple().exponent > 0:
            # a positive exponent has no spelling in plain notation: the same number written out is the same value (1E+2 and 100)
            v = decimal.Decimal(format(v, 'f'))
        return (type(m).__name__, repr(v))
    if isinstance(m, Repeated):
        return ['R', *[digest(i) for i in m.items if not isinstance(i, BlockComment)]]
    fields = {}
    for key, v in vars(m).items():
        if key == '_token_store':
            continue
        if isinstance(v, base.RawModel):
            d = digest(v)
            if d is not None:
                fields[key] = d
        elif isinstance(v, (tuple, list)) and v and all(isinstance(x, base.RawModel) for x in v):
            fields[key] = [digest(x) for x in v]
        elif v is None:
            pass
    return (type(m).__name__, fields)


def comment_lines(root: Any) -> list[str]:
    """Flat list of block-comment lines (stripped) of the store, in document order."""
    out = []
    for t in store_tokens(root.token_store):
        if isinstance(t, BlockComment):
            for line in t.raw_text.split('\n'):
                out.append(line.strip(' \t\r'))
    return out


def digest_diff(a: Any, b: Any, path: str = '') -> Optional[str]:
    if a == b:
        return None
    if type(a) != type(b):
        return f'{path}: {a!r} != {b!r}'
    if isinstance(a, tuple) and len(a) == 2 and isinstance(a[1], dict) and isinstance(b[1], dict):
        if a[0] != b[0]:
            return f'{path}: class {a[0]} != {b[0]}'
        for k in sorted(set(a[1]) | set(b[1])):
            d = digest_diff(a[1].get(k), b[1].get(k), f'{path}/{a[0]}.{k}')
            if d:
                return d
        return f'{path}: differ'
    if isinstance(a, list):
        if len(a) != len(b):
            return f'{path}: list length {len(a)} != {len(b)}: {a!r} vs {b!r}'[:600]
        for i, (x, y) in enumerate(zip(a, b)):
            d = digest_diff(x, y, f'{path}[{i}]')
            if d:
                return d
    return f'{path}: {a!r} != {b!r}'[:600]
