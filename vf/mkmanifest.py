"""Writes MANIFEST.json from the table below (run: /venv/bin/python -m vf.mkmanifest)."""
import json
import os

ROOT = os.path.dirname(os.path.dirname(os.path.abspath(__file__)))

BASELINE = ('cd /repo && /venv/bin/python -m pytest -ra -q -p no:cacheprovider --timeout=900 '
            '--continue-on-collection-errors --junitxml=/tmp/autobean_baseline.junit.xml')

NOTE_COMMON = ('Trusted base: CPython, Hypothesis 6.168 as case generator, the harness (vf/). No claim of absence: bounded by '
               'document size, history length and alphabets stated in DESIGN.md for this property.')

# id -> (design section, technique, level text, level note)
CLAIMS = {
    'C09': ('3/C09', 'schema-driven value assignments with read-back and re-parse oracles; bounded-exhaustive assignment sequences over all initial cost forms and payee/narration forms against record-of-optionals reference models',
            'Exploration: every value property of every class is assigned in-domain values (incl. None) and read back live and after print + re-parse; the cost number/currency group and '
            'payee/narration are driven through every assignment sequence up to length 2 (thorough 3 / 5) from every initial concrete form against an explicit reference model with the '
            'documented rejections. Right level: the dependent groups are small state machines that can be enumerated.',
            NOTE_COMMON),
    'C14': ('3/C14', 'enumerated comment layouts (every adjacent line-kind pair x comment block shape) + random comment-dense ledgers and claim/unclaim programs; uniqueness invariant, idempotence / parse-vs-later / unclaim-claim metamorphic relations, and a line-based reference for the documented order',
            'Exploration: ownership of every block comment is extracted from the tree and compared with a reference that works on the lines of the text (rules L, X, T, S; ambiguous layouts '
            'accept anything), and uniqueness is re-checked after every attribution call. Right level: attribution depends only on the local line layout, which a sweep over line-kind pairs covers.',
            NOTE_COMMON + ' Layouts where the documented rule has more than one reading are counted as undecided.'),
    'C15': ('3/C15', 'signature-driven constructor argument generation (role table; all optional subsets per class) with nested construction; invariants + print/re-parse/digest + getter read-back oracles',
            'Exploration: every from_value / from_children of every class is called with every subset of optional arguments and with random nested arguments; the result must be a well-formed '
            'tree, print to accepted text and re-parse to the same content. Right level: constructor defects are per (class, argument subset), which is enumerated.',
            NOTE_COMMON + ' A parameter without a role in the table is a harness error.'),
    'C12': ('3/C12', 'per-class value/lexeme generators over hazard alphabets + bounded-exhaustive enumeration (strings <= 3 over 12 symbols, date ranges, digit patterns); round-trip through from_value / parse_token and differential against a harness-side transcription of each terminal',
            'Exploration: for every value-bearing token class, values, lexemes, near-lexeme candidates and assignment sequences are checked for value <-> raw text <-> lexer agreement; '
            'small sub-domains are enumerated completely. Right level: the relation is per token and the failing regions (line/page separators, year < 1000, tiny decimals) are '
            'character-class boundaries that an enumerated hazard alphabet reaches.',
            NOTE_COMMON + ' Value domains are the images of the class parsers.'),
    'C13': ('3/C13', 'random expression trees and operator chains; independent recursive-descent evaluator over the printed text as reference, metamorphic operand-preservation via snapshots',
            'Exploration: parsed expressions and results of + - * / (plain, reflected, in-place) and unary operators over int / Decimal / free / attached operands are compared with an '
            'independent evaluation of the printed text and with arithmetic on the operand values; operands and their documents are snapshotted around non-in-place calls. Right level: '
            'precedence/parenthesisation mistakes depend only on operator pairs, all of which short random chains cover.',
            NOTE_COMMON),
    'C17': ('3/C17', 'generated ledgers; spacing read sweep against a store-list reference, neighbour-agreement metamorphic relation, and write programs with a character-range splice oracle',
            'Exploration: spacing accessors of every model and token on both sides are compared with a reference computed from the token list; assignments must change exactly the old '
            'run\'s character range and read back. Right level: a local relation on neighbouring tokens; zero-width neighbours and newline runs are generated densely.',
            NOTE_COMMON),
    'C18': ('3/C18', 'generated (parent kind, existing meta layout, indent_by, insertion route) combinations; documented-rule reference for the created indent and unchanged-existing-indent invariant',
            'Exploration: every insertion route x parent kind x layout x indent_by string is sampled thousands of times against the documented rule. Right level: the rule is a small '
            'decision table whose inputs are all generated.',
            NOTE_COMMON + ' With disagreeing sibling indents any sibling\'s indent is accepted.'),
    'C03': ('3/C03', 'state-aware generation of slot operations + list-operation sweep; token-window oracle (identity/order/text of everything outside the affected child and its adjacent separators)',
            'Exploration: after every generated add/remove/replace of a child the tokens outside the owning model, every sibling and every surviving token are compared by '
            'identity, order and text; disappeared/appeared tokens must lie in the child or its adjacent separator run. Right level: separator/pivot errors are local and '
            'deterministic per (class, field, operation shape), which the schema-driven generator and the sweep enumerate.',
            NOTE_COMMON),
    'C04': ('3/C04', 'generated programs of read-only and comment-attribution calls (whitelisted callables); visible-token identity/text and printed-text invariance oracle after every call',
            'Exploration: every public attribute of every model, every wrapper protocol, comparison, hashing, repr, deepcopy, printing and every claim/unclaim/auto-claim call '
            'are exercised on comment-dense ledgers in both attribution modes. Right level: the property is an invariance under a finite API surface that can be covered completely per document.',
            NOTE_COMMON),
    'C11': ('3/C11', 'generated (document, sub-model, edit program on copy, edit program on original) tuples + all-sub-model sweep; equality, text, token-disjointness, invariants and two-sided snapshot-independence oracles',
            'Exploration: deep copies of models at every depth (incl. after placeholder-moving claim programs) are compared with the original, checked as complete trees, and both '
            'sides are edited while the other side\'s full snapshot must stay unchanged. Right level: sharing bugs show on the first edit that touches the shared part.',
            NOTE_COMMON),
    'C20': ('3/C20', 'generated model pairs (parse twice, deep copy, single schema-driven perturbation, ownership moves, same-text tokens of different classes, cross-type pairs); metamorphic equal/unequal oracle with symmetry and hash consistency',
            'Exploration: equality is evaluated in both directions on pairs whose expected verdict is known by construction. Right level: the relation is decided per pair; '
            'coverage of every field of every class comes from the schema-driven perturbation generator.',
            NOTE_COMMON + ' indent_by is never varied.'),
    'C02': ('3/C02', 'Hypothesis-generated token assignment programs over whole-store token selection; splice oracle computed from the pre-state token texts',
            'Exploration: value / raw_text / indent assignments to any token (trivia and zero-width marks included) of generated ledgers; identity, order and text of every '
            'other token, the printed file and every enclosing model are compared with the single-span splice. Right level: a pure per-token relation, cheap to sample densely.',
            NOTE_COMMON),
    'C16': ('3/C16', 'generated include graphs and body programs on a real temporary directory tree; byte/mtime/inode snapshot oracle with harness-side exact re-computation of expected contents',
            'Exploration: include graphs (globs, cycles, diamonds, sub-directories), LF/CRLF/mixed contents, six root spellings, edit/remove/add/raise bodies, edit_file and '
            'edit_file_recursive; file-system state compared with an independently computed expectation. Right level: the editor is small and its failures depend on path '
            'spelling and content bytes, both generated.',
            NOTE_COMMON + ' Runs in a private temporary directory that is removed afterwards.'),
    'C19': ('3/C19', 'fault-style generation: catalogue of invalid calls (attached nodes at every batch position, bad indexes/keys/sizes/raw texts/operands, foreign tokens) after a random valid prefix; before/after snapshot equality oracle',
            'Exploration: thousands of (document, prefix, invalid call) triples over every node-accepting mutator; whenever the call raises, text, token identities, '
            'tree structure, claimed flags and token values of both documents must equal the snapshot taken before; an attached node must always be refused. Right '
            'level: non-atomic refusals are deterministic per call site; the catalogue enumerates call sites and the generator varies state.',
            NOTE_COMMON + ' Any exception type counts as a refusal.'),
    'C05': ('3/C05', 'model-based stateful generation (state-aware op histories incl. follow-up edits through inserted nodes) + list-operation sweep; structural-invariant oracle after every step',
            'Exploration: thousands of edit histories over every operation family and an enumeration of every list operation shape on every '
            'list-bearing field; the tree/store invariants are checked after each step on the root and on popped nodes. Right level: the defects '
            'of this class (stale store, children out of order) are reached by 1-3 step histories of the right shape.',
            NOTE_COMMON + ' Children are discovered from vars(model), order from iterating the store.'),
    'C06': ('3/C06', 'state-aware generation of syntax-preserving edit programs + list-operation sweep; print -> re-parse -> semantic-digest comparison (round trip through the parser)',
            'Exploration: after every step of generated syntax-preserving programs the document is printed, re-parsed and compared field by field '
            'with the in-memory model. Right level: separator/pivot mistakes show on the first operation of the right shape; the sweep enumerates those shapes.',
            NOTE_COMMON + ' The documented custom-value sign ambiguity and raw_string0/1/2 are excluded as the statement says.'),
    'C10': ('3/C10', 'stateful histories through aliasing views vs Python list / ordered-dict reference models + bounded-exhaustive slice enumeration',
            'Exploration: mutations through raw lists, filtered, string and mapping views (primed and lazy) compared with list / first-match dict '
            'semantics and cross-checked view-against-raw after every step; every (start, stop, step) triple in a bounded cube enumerated. Right level: '
            'index-table bugs depend only on argument shape and prior reads, both enumerable.',
            NOTE_COMMON),
    'C01': ('3/C01', 'grammar-mirroring Hypothesis generator; round-trip oracle plus independent tokenisation (generator piece list) and per-sub-model slice checks',
            'Exploration: thousands of generated ledgers (all directive kinds, every layout-noise dimension, all parse targets, both attribution modes); '
            'print==input, store==input, every sub-model prints its slice, tokens equal the generator\'s own tokenisation. Right level because the '
            'property is a pure function of the input text and failures live in layout corners that a grammar-directed generator reaches cheaply.',
            NOTE_COMMON + ' Only lark rejections (and ValueError for meaningless lexemes) define "not accepted".'),
    'C08': ('3/C08', 'Hypothesis-generated store histories and document edit programs; positions recomputed from concatenated text (reference computation)',
            'Exploration: after every step of random store histories (load factors 2..1000) and of edit programs on generated ledgers, get_position '
            'and get_index of every token are compared with values recomputed from the text. Right level: the position caches are small state '
            'machines whose stale states are reached by short histories.',
            NOTE_COMMON),
    'C07': ('3/C07', 'Hypothesis-generated operation histories + bounded-exhaustive splice enumeration vs a Python list (model-based differential)',
            'Exploration: random histories at load factors 2..1000 and complete enumeration of single splices (LF 2-4, lengths 0..6LF) and '
            'splice pairs (LF 2, thorough); every observable of the store compared with a list after every step. Right level because the '
            'store is a small deterministic data structure whose failures are reachable by short histories at small block sizes.',
            NOTE_COMMON + ' The load factor is patched through the four module constants.'),
}

NOT_BUILT = 'check not built yet in this session (planned in DESIGN.md); not claimed until its check exists and is quiet on the unchanged tree'


def main() -> None:
    checks = []
    for pid in sorted(CLAIMS):
        ref, technique, text, note = CLAIMS[pid]
        checks.append({
            'property_id': pid,
            'quick_cmd': f'./check {pid} --tier quick',
            'thorough_cmd': f'./check {pid} --tier thorough',
            'evidence_file': f'/verif/evidence/{pid}.json',
            'replay_cmd_template': f'./check {pid} --replay {{path}}',
            'engine': 'vf',
            'level_claimed': {'category': 'exploration', 'text': text, 'design_ref': 'DESIGN.md section ' + ref},
            'level_note': note,
            'technique': technique,
        })
    all_ids = ['C%02d' % i for i in range(1, 21)]
    manifest = {
        'version': 1,
        'setup_cmd': 'PYTHONPATH=/verif /venv/bin/python -m vf.deps atheris',
        'hooks': {
            'guard': 'AUTOBEAN_REFACTOR_VERIF',
            'enable': 'no source hooks are needed: checks import /repo\'s working tree directly (PYTHONPATH=/repo) and patch the token-store load factor through its module constants',
            'baseline_off_cmd': BASELINE,
            'source_commits': [],
            'add_only': True,
        },
        'engines': [{
            'name': 'vf',
            'path': '/verif/vf',
            'serves_properties': sorted(CLAIMS),
            'kind_free_text': 'property-based testing: Hypothesis-driven case generators, bounded enumeration, explicit oracles (reference models, round trips, differential and metamorphic relations, structural invariants), collect-bucket-minimise runner with JSON replay files',
        }],
        'checks': checks,
        'notes': 'See DESIGN.md. ./check <id> --tier quick|thorough, ./check <id> --replay <file>. VERIF_SEED selects the seed; VERIF_REPO (default /repo) the tree under test. known_findings.json lists open findings and fixed: records.',
        'not_applicable': [{'property_id': p, 'reason': NOT_BUILT} for p in all_ids if p not in CLAIMS],
    }
    with open(os.path.join(ROOT, 'MANIFEST.json'), 'w') as f:
        json.dump(manifest, f, indent=1)
        f.write('\n')
    print('MANIFEST.json written:', len(checks), 'checks')


if __name__ == '__main__':
    main()
